"""
Catalogue of self-test variants (DESIGN.md appendix D).  Each variant is an edit of
the current tree anchored on a source fragment; `expect='fire'` variants break a
property and must be reported by one of `rules`; `expect='silent'` variants keep
the behaviour and must raise nothing; `expect='nofalse'` may be inconclusive but
must never be a violation.
"""

from .selftest import V

W = "asynciojobs/window.py"
P = "asynciojobs/purescheduler.py"
J = "asynciojobs/job.py"
S = "asynciojobs/scheduler.py"
Q = "asynciojobs/sequence.py"
D = "asynciojobs/dotstyle.py"

CATALOGUE = []


def add(*a, **k):
    CATALOGUE.append(V(*a, **k))


# the body of the window wrapper, from `release = True` to the end of its finally clause (read from the tree)
WRAPPER_BODY = (lambda w: w[w.index("            release = True\n"):w.index("            # return the right thing")])(
    open(__import__("os").path.join(__import__("os").environ.get("VERIF_REPO", "/repo"), W)).read())

# ------------------------------------------------------------------ C07
add("m07a", ["C07"], (W, """            await self.queue.put(1)
            release = True
            try:
""", """            job._running = True                         # pylint: disable=w0212
            await self.queue.put(1)
            release = True
            try:
"""), rules=["R07.1"])
add("m07c", ["C07"], (W, "asyncio.Queue(maxsize=jobs_window)", "asyncio.Queue(maxsize=jobs_window + 1)"),
    rules=["R07.2"])
add("m07d", ["C07"], (P, "window = Window(self.jobs_window, self.jobs)", "window = Window(None)"), rules=["R07.3"])
add("m07e", ["C07"], [(P, "        self._did_shutdown = False\n\n\n    # think",
                       "        self._did_shutdown = False\n        self._window = Window(jobs_window)\n\n\n    # think"),
                      (P, "window = Window(self.jobs_window, self.jobs)", "window = self._window")], rules=["R07.3"])
add("m07f", ["C07"], (W, "await self.queue.put(1)", "self.queue.put_nowait(1)"), rules=["R07.2"])
add("m07h", ["C07"], (W, "asyncio.Queue(maxsize=jobs_window)", "asyncio.Queue()"), rules=["R07.2"])
add("m01g", ["C07", "C01"], (P, "        jobs = BestSet(Sequence._flatten(jobs))\n        self.jobs.update(jobs)",
                             "        jobs = BestSet(Sequence._flatten(jobs))\n        for j in jobs:\n"
                             "            asyncio.ensure_future(j.co_run())\n        self.jobs.update(jobs)"),
    rules=["R07.4", "R01.1"])
add("b13", ["C07"], (W, """        if jobs_window is None:
            jobs_window = 0
        self.jobs_window = jobs_window
        self.queue = asyncio.Queue(maxsize=jobs_window)""",
                     """        self.jobs_window = jobs_window
        self.queue = asyncio.Queue(maxsize=jobs_window or 0)"""), expect='silent')
add("b14", ["C07", "C03", "C06", "C12"], (W, "await self.queue.get()", "self.queue.get_nowait()"), expect='silent')
add("b01w", ["C07", "C03"], [(W, "def run_job(self, job):", "def wrap(self, job):"),
                             (P, "window.run_job(job)()", "window.wrap(job)()")], expect='silent')

# ------------------------------------------------------------------ C01
GUARD = """                requirements_ok = True
                for req in candidate_next.required:
                    if not req.is_done():
                        requirements_ok = False
"""
add("m01a", ["C01"], (P, GUARD, """                requirements_ok = True
                for req in candidate_next.required:
                    if not req.is_done():
                        pass
"""), rules=["R01.2"])
add("m01b", ["C01"], (P, GUARD, """                requirements_ok = False
                for req in candidate_next.required:
                    if req.is_done():
                        requirements_ok = True
"""), rules=["R01.2"])
add("m01c", ["C01"], (P, "                    if not req.is_done():\n                        requirements_ok = False",
                      "                    if not req.is_scheduled():\n                        requirements_ok = False"),
    rules=["R01.2"])
add("m01d", ["C01", "C14", "C03"], (J, """        return self._task is not None \\
            and self._task._state == asyncio.futures._FINISHED""", """        return self._task is not None"""),
    rules=["R01.3", "R14.1", "R03.2"])
add("m01e", ["C01", "C12"], (P, "entry_jobs = [job for job in self.jobs if not job.required]",
                             "entry_jobs = list(self.jobs)"), rules=["R01.2", "R12.1"])
add("m01f", ["C01", "C07", "C14"], (W, "value = await job.co_run()", "value = asyncio.ensure_future(job.co_run())"),
    rules=["R01.1", "R07.1", "R07.4", "R14.3"])
add("m01h", ["C01"], (P, GUARD, """                requirements_ok = True
                for req in candidate_next.required:
                    if not req.is_done():
                        requirements_ok = False
                    break
"""), rules=["R01.2"])
add("m01i", ["C01"], (P, "                if requirements_ok:\n                    await self._feedback(candidate_next, \"STARTING\")",
                      "                if requirements_ok or candidate_next.forever:\n                    await self._feedback(candidate_next, \"STARTING\")"),
    rules=["R01.2"])
add("m10b", ["C01", "C10"], (S, """            pure = await PureScheduler.co_run(self)
""", """            asyncio.ensure_future(PureScheduler.co_run(self))
            pure = True
"""), rules=["R01.4", "R10.2", "R01.1"])
add("b04a", ["C01", "C12", "C02", "C05"], (P, GUARD, """                requirements_ok = all(req.is_done() for req in candidate_next.required)
"""), expect='silent')
add("b16", ["C01", "C12", "C02"], [(P, GUARD, """                requirements_ok = self._ready(candidate_next)
"""), (P, """    def _total_length(self):""", """    def _ready(self, job):
        for req in job.required:
            if not req.is_done():
                return False
        return True

    def _total_length(self):""")], expect='nofalse')
add("b15", ["C01", "C12", "C09"], (P, "entry_jobs = [job for job in self.jobs if not job.required]",
                                   "entry_jobs = list(self.entry_jobs())"), expect='silent')
add("b03", ["C01", "C02", "C05", "C07", "C11", "C13", "C12"], (P, """                    pending.add(self._create_task(candidate_next, window))""",
                                           """                    newtask = asyncio.create_task(window.run_job(candidate_next)())
                    newtask._job = candidate_next
                    candidate_next._task = newtask
                    pending.add(newtask)"""), expect='silent')

# ------------------------------------------------------------------ C02
add("m02a", ["C02", "C09"], (P, "done_jobs_not_forever = {j for j in done if not j._job.forever}",
                             "done_jobs_not_forever = {j for j in done}"), rules=["R02.1", "R09.2"])
add("m02a2", ["C02", "C09"], (P, "nb_jobs_finite = len([j for j in self.jobs if not j.forever])",
                              "nb_jobs_finite = len([j for j in self.jobs])"), rules=["R02.1", "R09.2"])
add("m02b", ["C02"], (P, "            nb_jobs_done += len(done_jobs_not_forever)\n",
                      "            nb_jobs_done += len(done_jobs_not_forever)\n            nb_jobs_done += len(done_jobs_not_forever)\n"),
    rules=["R02.1"])
add("m02c", ["C02"], (P, "if nb_jobs_done == nb_jobs_finite:", "if nb_jobs_done <= nb_jobs_finite:"), rules=["R02.1"])
add("m02d", ["C02"], (P, """                if candidate_next.is_scheduled():
                    continue
""", ""), rules=["R02.3"])
add("m02e", ["C02"], (P, "if candidate_next.is_scheduled():", "if candidate_next.is_running():"), rules=["R02.3"])
add("m02f", ["C02"], (P, "                = await asyncio.wait(pending,\n", "                = await asyncio.wait(pending | done if False else set(pending) | locals().get('done', set()),\n"),
    rules=["R02.2"], note="waits again on finished tasks")
add("m02g", ["C02", "C06"], (P, "done_jobs_not_forever = {j for j in done if not j._job.forever}",
                             "done_jobs_not_forever = {j for j in done_ok if not j._job.forever}"),
    rules=["R02.1", "R06.3"])
add("m02h", ["C02"], (P, "                    pending.add(self._create_task(candidate_next, window))",
                      "                    self._create_task(candidate_next, window)"), rules=["R02.2"])
add("b06", ["C02", "C09", "C04"], (P, "if nb_jobs_done == nb_jobs_finite:", "if nb_jobs_done >= nb_jobs_finite:"),
    expect='silent')

# ------------------------------------------------------------------ C03 / C06 window
add("m03a", ["C03", "C06"], (W, WRAPPER_BODY, """            job._running = True                         # pylint: disable=w0212
            value = await job.co_run()
            await self.queue.get()
"""), rules=["R03.1", "R06.2"])
add("m03b", ["C03", "C06"], (W, """                if release:
                    await self.queue.get()
""", """                pass
"""), rules=["R03.1", "R06.2"])
add("m03c", ["C03", "C06", "C12"], (P, """            for done_task in done:
                possible_next_jobs.update(done_task._job._s_successors)""", """            for done_task in done_ok:
                possible_next_jobs.update(done_task._job._s_successors)"""), rules=["R03.2", "R06.3", "R12.2"])
add("m03d", ["C03", "C01", "C14"], (J, """            and self._task._state == asyncio.futures._FINISHED""",
                                    """            and self._task._state == asyncio.futures._FINISHED \\
            and not self._task._exception"""), rules=["R03.2", "R01.3", "R14.1"])
add("m03e", ["C03", "C06"], (W, """                release = not job.is_critical()
""", """                release = False
"""), rules=["R03.1", "R06.2"], note="slot kept for every failing job, critical or not")
add("m05j", ["C05"], (W, """                release = not job.is_critical()
""", """                release = True
"""), rules=["R05.6"], note="slot handed over even when a critical job fails")
add("m05k", ["C05", "C03"], (W, """                release = not job.is_critical()
""", """                release = job.is_critical()
"""), rules=["R05.6", "R03.1"], note="polarity slip")
add("m07g", ["C07"], (W, """            await self.queue.put(1)
            release = True
            try:
""", """            release = True
            try:
                await self.queue.put(1)
"""), rules=["R07.1"])
add("m07b", ["C07"], (W, WRAPPER_BODY, """            await self.queue.get()
            job._running = True                         # pylint: disable=w0212
            value = await job.co_run()
"""), rules=["R07.1"])

# ------------------------------------------------------------------ C05
add("m05a", ["C05", "C11"], (P, """            if critical_failure:
                await self._tidy_tasks(pending)
""", """            if critical_failure:
"""), rules=["R05.3", "R11.1"])
add("m05b", ["C05", "C11"], (P, """            if critical_failure:
                await self._tidy_tasks(pending)
""", """            if critical_failure:
                self._tidy_tasks(pending)
"""), rules=["R05.3", "R11.1"])
add("m05d", ["C05"], (P, """                    critical_failure = critical_failure \\
                        or done_job.is_critical()""", """                    critical_failure = critical_failure \\
                        and done_job.is_critical()"""), rules=["R05.1"])
add("m05e", ["C05", "C06"], (P, """                if done_job.raised_exception() is not None:
                    critical_failure = critical_failure \\
                        or done_job.is_critical()""", """                critical_failure = critical_failure \\
                    or done_job.is_critical()
                if done_job.raised_exception() is not None:"""), rules=["R05.1", "R06.1"])
add("m05e2", ["C05", "C06"], (P, """                    critical_failure = critical_failure \\
                        or done_job.is_critical()""", """                    critical_failure = True"""), rules=["R05.1", "R06.1"])
add("m05f", ["C05", "C08", "C09", "C11"], (P, """            for task in pending:
                task.cancel()
            # wait for the forever tasks""", """            # wait for the forever tasks"""),
    rules=["R05.4", "R05.3", "R08.3", "R08.3t", "R09.3", "R09.3t", "R11.1"])
add("m05g", ["C05", "C11"], (P, "            await asyncio.wait(pending)\n",
                             "            await asyncio.wait(pending, return_when=asyncio.FIRST_COMPLETED)\n"),
    rules=["R05.4", "R05.3", "R11.1"])
add("m05h", ["C05", "C11"], (P, """            for task in pending:
                task.cancel()
            # wait for the forever tasks""", """            for task in list(pending)[:1]:
                task.cancel()
            # wait for the forever tasks"""), rules=["R05.4", "R05.3", "R11.1"])
add("m05i", ["C05", "C11"], (P, """            for task in pending:
                task.cancel()
            # wait for the forever tasks""", """            for task in pending:
                if task._job.forever:
                    task.cancel()
            # wait for the forever tasks"""), rules=["R05.4", "R05.3", "R11.1"])
add("m05c", ["C05"], (P, """            if critical_failure:
                await self._tidy_tasks(pending)
                await self.co_shutdown()
                self._failed_critical = True
                await self._feedback(
                    None, "Emergency exit upon exception in critical job",
                    force=True)
                return False
""", """            if critical_failure and len(pending) < 0:
                return False
"""), rules=["R05.1", "R05.2", "R05.3"], note="abort branch made unreachable in practice")
add("b02", ["C05", "C08", "C09", "C11", "C13"], (P, """            if critical_failure:
                await self._tidy_tasks(pending)
""", """            if critical_failure:
                if pending:
                    for tsk in pending:
                        tsk.cancel()
                    await asyncio.wait(pending)
"""), expect='silent')
add("b02b", ["C05", "C11"], (P, """            for task in pending:
                task.cancel()
            # wait for the forever tasks""", """            [task.cancel() for task in pending]
            # wait for the forever tasks"""), expect='silent')
add("b02c", ["C05", "C11"], (P, "            await asyncio.wait(pending)\n",
                             "            await asyncio.gather(*pending, return_exceptions=True)\n"), expect='silent')

# ------------------------------------------------------------------ C08
add("m08a", ["C08", "C03"], (P, "                                     timeout=self._remaining_timeout(),",
                             "                                     timeout=self.timeout,"), rules=["R08.1", "R03.3"])
add("m08b", ["C08", "C03"], (P, """        while True:
            done, pending \\""", """        while True:
            self._record_beginning(self.timeout)
            done, pending \\"""), rules=["R08.1", "R03.3"])
add("m08c", ["C08"], (P, "            else time.time() + timeout", "            else time.monotonic() + timeout"),
    rules=["R08.1"])
add("m08d", ["C08", "C11"], (P, """                await self._feedback(pending, "ABORTING")
                await self._tidy_tasks(pending)
""", """                await self._feedback(pending, "ABORTING")
"""), rules=["R08.3", "R11.1"])
add("m08e", ["C08"], (P, "                                     timeout=self._remaining_timeout(),\n", ""),
    rules=["R08.2", "R08.1"])
add("m08f", ["C08"], (P, "self._record_beginning(self.timeout)\n        # reset status",
                      "self._record_beginning(self.shutdown_timeout)\n        # reset status"), rules=["R08.1"])

# ------------------------------------------------------------------ C09
add("m09a", ["C09", "C11"], (P, """                await self._feedback(pending, "TIDYING forever")
                await self._tidy_tasks(pending)
""", """                await self._feedback(pending, "TIDYING forever")
"""), rules=["R09.3", "R11.1"])
add("m09b", ["C09", "C12"], (P, "entry_jobs = [job for job in self.jobs if not job.required]",
                             "entry_jobs = [job for job in self.jobs if not job.required and not job.forever]"),
    rules=["R09.1", "R12.1"])
add("m09c", ["C09", "C12"], (P, """            for done_task in done:
                possible_next_jobs.update(done_task._job._s_successors)""", """            for done_task in done:
                if done_task._job.forever:
                    continue
                possible_next_jobs.update(done_task._job._s_successors)"""), rules=["R09.1", "R12.2"])
add("m09d", ["C09"], (P, """                if requirements_ok:
                    await self._feedback(candidate_next, "STARTING")""", """                if requirements_ok and not candidate_next.forever:
                    await self._feedback(candidate_next, "STARTING")"""), rules=["R09.1"])

# ------------------------------------------------------------------ C12
add("m12a", ["C12"], (P, """                    pending.add(self._create_task(candidate_next, window))
                    added += 1""", """                    pending.add(self._create_task(candidate_next, window))
                    added += 1
                    break"""), rules=["R12.2"])
add("m12b", ["C12"], (P, """            for done_task in done:
                possible_next_jobs.update(done_task._job._s_successors)""", """            for done_task in done:
                possible_next_jobs.update(done_task._job._s_successors)
                break"""), rules=["R12.2"])
add("m12c", ["C12", "C17"], (P, "                req._s_successors.add(job)              # pylint: disable=W0212",
                             "                job._s_successors.add(req)              # pylint: disable=W0212"),
    rules=["R12.3", "R17.2"])
add("m12d", ["C12"], (P, """        # backlinks - i.e. _s_successors is the reverse of required
        self._backlinks()
""", ""), rules=["R12.3"])
add("m12e", ["C12"], (W, """                job._running = True                     # pylint: disable=w0212
""", """                job._running = True                     # pylint: disable=w0212
                await asyncio.sleep(0)
"""), rules=["R12.5"])
add("m12f", ["C12"], (P, """                if requirements_ok:
                    await self._feedback(candidate_next, "STARTING")""", """                if requirements_ok and added < 1:
                    await self._feedback(candidate_next, "STARTING")"""), rules=["R12.4", "R12.2"],
    note="at most one successor started per iteration")
add("m12g", ["C12", "C17"], (P, """        for job in self.jobs:
            job._s_successors = BestSet()               # pylint: disable=W0212
        for job in self.jobs:
            for req in job.required:""", """        for job in self.jobs:
            for req in job.required:"""), rules=["R12.3", "R17.2"])
add("b18", ["C12", "C03", "C09"], (P, """            possible_next_jobs = set()
            for done_task in done:
                possible_next_jobs.update(done_task._job._s_successors)""",
                            """            possible_next_jobs = {nxt for done_task in done
                                  for nxt in done_task._job._s_successors}"""), expect='silent')
add("b17", ["C12", "C08", "C14", "C04", "C01"], (P, """        self._set_sched_ids()
        # backlinks - i.e. _s_successors is the reverse of required
        self._backlinks()
        # clear any Task instance
        self._reset_tasks()
        # for computing global timeout
        self._record_beginning(self.timeout)
        # reset status
        self._failed_critical = False
        self._failed_timeout = False
""", """        self._failed_timeout = False
        self._failed_critical = False
        self._record_beginning(self.timeout)
        self._reset_tasks()
        self._backlinks()
        self._set_sched_ids()
"""), expect='silent')
add("b01", ["C01", "C02", "C05", "C08", "C09", "C11", "C12", "C13"], [
    (P, "    async def _tidy_tasks(self, pending):", "    async def _reap(self, pending):"),
    (P, "                await self._tidy_tasks(pending)\n                await self.co_shutdown()\n                self._failed_timeout",
        "                await self._reap(pending)\n                await self.co_shutdown()\n                self._failed_timeout"),
    (P, "            if critical_failure:\n                await self._tidy_tasks(pending)", "            if critical_failure:\n                await self._reap(pending)"),
    (P, "                await self._feedback(pending, \"TIDYING forever\")\n                await self._tidy_tasks(pending)",
        "                await self._feedback(pending, \"TIDYING forever\")\n                await self._reap(pending)"),
    (P, "            await self._tidy_tasks(pending)\n            # we might need", "            await self._reap(pending)\n            # we might need"),
    (P, "            await self._tidy_tasks(tasks)\n            raise", "            await self._reap(tasks)\n            raise"),
    (S, "            await self._tidy_tasks(\n", "            await self._reap(\n"),
], expect='silent')
add("b07", ["C01", "C02", "C05", "C08", "C09", "C12", "C13"], [
    (P, """        while True:
            done, pending \\
                = await asyncio.wait(pending,
                                     timeout=self._remaining_timeout(),
                                     return_when=asyncio.FIRST_COMPLETED)
""", """        while True:
            try:
                done, pending \\
                    = await asyncio.wait(pending,
                                         timeout=self._remaining_timeout(),
                                         return_when=asyncio.FIRST_COMPLETED)
            finally:
                pass
""")], expect='silent')
add("b10", ["C01", "C02", "C05", "C08", "C09", "C12"], (P, """            if not done:
                await self._feedback(None,""", """            if self.verbose:
                print("iteration", len(done), len(pending))
            if not done:
                await self._feedback(None,"""), expect='silent')

# ------------------------------------------------------------------ C11 / C13
HANDLER = """        except asyncio.CancelledError:
            # our enclosing scheduler is cancelling us (it has timed out, or
            # one of its critical jobs has failed); pass that on to the jobs
            # that we have started ourselves, and wait for them, so that
            # nothing keeps on running behind the scenes
            await self._tidy_tasks(
                [job._task for job in self.jobs if job._task is not None])
            raise
"""
add("m11a", ["C11", "C13"], (S, HANDLER, """        except asyncio.CancelledError:
            raise
"""), rules=["R11.2", "R13.6"])
add("m11b", ["C11", "C13"], (S, "[job._task for job in self.jobs if job._task is not None])",
                             "[job._task for job in self.jobs if job.is_running()])"), rules=["R11.2", "R13.6"])
add("m11b2", ["C11"], (S, """            await self._tidy_tasks(
                [job._task for job in self.jobs if job._task is not None])
            raise""", """            for job in self.jobs:
                if job._task is not None:
                    job._task.cancel()
            raise"""), rules=["R11.2", "R11.3"], note="cancels but does not wait")
add("m11c", ["C11", "C13"], (P, """            await self._tidy_tasks(pending)
            # we might need to consume any exception as well ?""", """            # we might need to consume any exception as well ?"""),
    rules=["R11.1", "R13.4"])
add("m11d", ["C11", "C13"], (P, """            await self._tidy_tasks(tasks)
            raise""", """            raise"""), rules=["R11.2", "R13.6"])
add("m11e", ["C11"], (S, "        except asyncio.CancelledError:\n            # our enclosing", "        except asyncio.TimeoutError:\n            # our enclosing"),
    rules=["R11.2"])
add("m13a", ["C13", "C05"], (P, """                await self._tidy_tasks(pending)
                await self.co_shutdown()
                self._failed_critical = True""", """                await self._tidy_tasks(pending)
                self._failed_critical = True"""), rules=["R13.1", "R05.3"])
add("m13b", ["C13", "C09"], (P, """                await self._tidy_tasks(pending)
                await self.co_shutdown()
                return True""", """                await self.co_shutdown()
                await self._tidy_tasks(pending)
                return True"""), rules=["R13.1", "R09.3"])
add("m13c", ["C13"], [(P, """        self._did_shutdown = True

        tasks = [asyncio.create_task(job.co_shutdown())""", """        tasks = [asyncio.create_task(job.co_shutdown())"""),
                      (P, """            if not pending:
                return True

            # with nested""", """            self._did_shutdown = True
            if not pending:
                return True

            # with nested""")], rules=["R13.2"])
add("m13d", ["C13"], (P, """        tasks = [asyncio.create_task(job.co_shutdown())
                 for job in self.jobs]""", """        tasks = [asyncio.create_task(job.co_shutdown())
                 for job in self.jobs if job.is_done()]"""), rules=["R13.3"])
add("m13e", ["C13"], (P, "self._record_beginning(self.shutdown_timeout)", "self._record_beginning(self.timeout)"),
    rules=["R13.4"])
add("m13f", ["C13"], (P, """            if not pending:
                return True

            # with nested""", """            if not pending:
                return False

            # with nested"""), rules=["R13.5"])
add("m13g", ["C13"], (P, """            # nothing to send, so nothing had to be cancelled
            return True""", """            return"""), rules=["R13.5"])
add("m13h", ["C13"], (P, """        if self._did_shutdown:
            # nothing to send, so nothing had to be cancelled
            return True

""", ""), rules=["R13.2"])
add("m13i", ["C13"], (P, "            _, pending = await asyncio.wait(tasks, timeout=timeout)",
                      "            _, pending = await asyncio.wait(tasks)"), rules=["R13.4"])
add("m10a", ["C13", "C10"], (S, "class Scheduler(PureScheduler, AbstractJob):", "class Scheduler(AbstractJob, PureScheduler):"),
    rules=["R13.3", "R10.1"])
add("b13a", ["C13", "C11"], (P, """        self._record_beginning(self.shutdown_timeout)
        timeout = self._remaining_timeout()
""", """        timeout = self.shutdown_timeout
"""), expect='silent')

# ------------------------------------------------------------------ C04 / C10 / C14 / C06
add("m04a", ["C04"], [(P, "                self._failed_timeout = self.timeout\n                return False", "                self._failed_critical = True\n                return False"),
                      (P, "                await self.co_shutdown()\n                self._failed_critical = True\n                await self._feedback",
                          "                await self.co_shutdown()\n                self._failed_timeout = self.timeout\n                await self._feedback")],
    rules=["R04.1"])
add("m04b", ["C04"], (P, """        self._failed_critical = False
        self._failed_timeout = False

        # empty schedulers""", """        self._failed_critical = False

        # empty schedulers"""), rules=["R04.1"])
add("m04c", ["C04", "C02"], (P, """                    None, "Emergency exit upon exception in critical job",
                    force=True)
                return False""", """                    None, "Emergency exit upon exception in critical job",
                    force=True)
                return True"""), rules=["R04.1", "R02.1"])
add("m04d", ["C04", "C10"], (S, """        if self.failed_time_out():
            raise TimeoutError("critical scheduler took too long")
        # a critical job has exploded
        if self.failed_critical():""", """        if self.failed_critical():
            raise TimeoutError("critical scheduler took too long")
        # a critical job has exploded
        if self.failed_time_out():"""), rules=["R04.3", "R10.3"])
add("m04e", ["C04", "C10"], (S, "                    raise exc\n", "                    raise type(exc)(*exc.args)\n"),
    rules=["R04.3", "R10.3"])
add("m04f", ["C04", "C14", "C10"], (W, """                    self.closed = True
                raise""", """                    self.closed = True
                raise RuntimeError("job failed")"""), rules=["R04.4", "R14.3", "R10.3i"])
add("m04g", ["C04"], (P, """        if self._failed_timeout is not False:
            return "TIMED OUT after {}s".format(self._failed_timeout)
        if self._failed_critical:
            return "a CRITICAL job has raised an exception\"""", """        if self._failed_critical:
            return "TIMED OUT after {}s".format(self._failed_timeout)
        if self._failed_timeout is not False:
            return "a CRITICAL job has raised an exception\""""), rules=["R04.5"])
add("m04h", ["C04"], (P, "        return self._failed_timeout is not False\n", "        return self._failed_timeout\n"),
    rules=["R04.2"])
add("m04h2", ["C04"], (P, "        if self._failed_timeout is not False:\n            return \"TIMED OUT",
                       "        if self._failed_timeout:\n            return \"TIMED OUT"), rules=["R04.5"])
add("m04i", ["C04", "C10"], (S, """        if not self.critical:
            return pure
""", ""), rules=["R04.3", "R10.3"])
add("m04j", ["C04", "C10"], (S, """                if not job.critical:
                    continue
""", ""), rules=["R04.3", "R10.3"])
add("m04k", ["C04"], (P, """                await self.co_shutdown()
                self._failed_timeout = self.timeout
                return False""", """                await self.co_shutdown()
                return False"""), rules=["R04.1"])
add("m10c", ["C10"], (S, """        AbstractJob.__init__(self, **kwds)
""", """        self.kwds = kwds
"""), rules=["R10.1"])
add("m14a", ["C14"], (W, """                if release:
                    await self.queue.get()
""", """                if release:
                    await self.queue.get()
                job._running = False
"""), rules=["R14.2"])
add("m14b", ["C14", "C01", "C03"], (J, "and self._task._state == asyncio.futures._FINISHED", "and self._task._state != 'PENDING'"),
    rules=["R14.1", "R01.3", "R03.2"])
add("m14c", ["C14"], (J, """        if self._task is None:
            return None
        return self._task._exception""", """        if self._task is None:
            return None
        return self._task._result"""), rules=["R14.1"])
add("m14d", ["C14"], (W, "            # return the right thing\n            return value", "            return None"),
    rules=["R14.3"])
add("m14e", ["C14", "C06"], (P, """        # clear any Task instance
        self._reset_tasks()
""", ""), rules=["R14.2", "R06.4"])
add("m14f", ["C14"], (J, "        return self._task is not None\n", "        return self._running\n"), rules=["R14.1"])
add("m14g", ["C14"], (J, """        if not self.is_done():
            raise ValueError("job not finished")
        return self._task._result""", """        if not self.is_scheduled():
            raise ValueError("job not finished")
        return self._task._result"""), rules=["R14.1"])
add("m14h", ["C14"], (J, """        result = await self.corun
        return result""", """        await self.corun
        return None"""), rules=["R14.3"])
add("m14i", ["C14", "C06"], (P, """        await asyncio.gather(*exception_tasks, return_exceptions=True)
""", """        await asyncio.gather(*exception_tasks, return_exceptions=True)
        for task in exception_tasks:
            task._job._task = None
"""), rules=["R14.2", "R06.4"])
add("m06a", ["C06", "C05"], (P, """                if done_job.raised_exception() is not None:
                    critical_failure = critical_failure \\""", """                if done_job.raised_exception() is not None and not self.verbose:
                    critical_failure = True
                if done_job.raised_exception() is not None:
                    critical_failure = critical_failure \\"""), rules=["R06.1", "R05.1"])
add("m06b", ["C06", "C02"], (P, "            nb_jobs_done += len(done_jobs_not_forever)", "            nb_jobs_done += len([t for t in done_jobs_not_forever if not t._exception])"),
    rules=["R06.1", "R06.3", "R02.1"])
add("m06c", ["C06"], (P, """                if requirements_ok:
                    await self._feedback(candidate_next, "STARTING")""", """                if requirements_ok and not any(r.raised_exception() for r in candidate_next.required):
                    await self._feedback(candidate_next, "STARTING")"""), rules=["R06.1"])
add("m06d", ["C06"], (P, """            if critical_failure:
                await self._tidy_tasks(pending)""", """            if done_ko and len(done_ko) > 3:
                await self._tidy_tasks(pending)
                await self.co_shutdown()
                return False
            if critical_failure:
                await self._tidy_tasks(pending)"""), rules=["R06.1"], note="aborts after many non-critical failures")
add("b09", ["C06", "C05", "C02"], (P, """            done_ok = {t for t in done if t._exception is None}
            await self._feedback(done_ok, "DONE")
            done_ko = done - done_ok
            await self._feedback(done_ko, "RAISED EXC.")
""", ""), expect='silent')
add("b11", ["C14", "C01", "C03", "C06"], (J, """        return self._task is not None \\
            and self._task._state == asyncio.futures._FINISHED""", """        return self._task is not None and self._task.done() \\
            and not self._task.cancelled()"""), expect='silent')
add("b12", ["C14"], (J, "        return self._task is None\n\n    def is_scheduled", "        return not self.is_scheduled()\n\n    def is_scheduled"),
    expect='silent')
add("b14r", ["C14", "C04"], (J, """        if self._task is None:
            return None
        return self._task._exception""", """        return self._task._exception if self._task is not None else None"""),
    expect='silent')

# ------------------------------------------------------------------ C15
add("m15a", ["C15"], (P, "                    if required_job._s_mark is None:    # pylint: disable=W0212",
                      "                    if required_job._s_mark is not None:    # pylint: disable=W0212"), rules=["R15.1"])
add("m15b", ["C15"], (P, "        self._reset_marks()\n        nb_marked = 0", "        nb_marked = 0"), rules=["R15.4"])
add("m15c", ["C15"], (P, """            if not changed:
                # this is wrong
                raise Exception(
                    "scheduler could not be scanned"
                    " - most likely because of cycles")""", """            if not changed:
                return"""), rules=["R15.4"])
add("m15d", ["C15"], (P, """                if not has_unmarked_requirements:
                    job._s_mark = True                  # pylint: disable=W0212
                    nb_marked += 1
                    changed = True
                    yield job""", """                job._s_mark = True                  # pylint: disable=W0212
                nb_marked += 1
                changed = True
                yield job"""), rules=["R15.1"])
add("m15e", ["C15"], (P, """                    job._s_mark = True                  # pylint: disable=W0212
                    nb_marked += 1""", """                    nb_marked += 1"""), rules=["R15.2", "R15.4"])
add("m15f", ["C15"], (S, """                if isinstance(job, Scheduler) and not job.check_cycles():
                    return False
""", """                pass
"""), rules=["R15.5"])
add("m15g", ["C15"], (P, """            for _ in self.topological_order():
                pass
            return True""", """            for _ in self.topological_order():
                return True
            return True"""), rules=["R15.5"])
add("m15h", ["C15"], (P, """                if job._s_mark:                         # pylint: disable=W0212
                    continue
""", ""), rules=["R15.2"])
add("m15i", ["C15"], (P, """            if not changed:
                # this is wrong
                raise Exception(
                    "scheduler could not be scanned"
                    " - most likely because of cycles")""", """            if not changed:
                pass"""), rules=["R15.4"])
add("m15j", ["C15"], (P, """        except Exception as exc:                        # pylint: disable=W0703
            if self.verbose:
                print("check_cycles failed", exc)
            return False

    ####################
    def topological_order""", """        except ValueError as exc:                        # pylint: disable=W0703
            if self.verbose:
                print("check_cycles failed", exc)
            return False

    ####################
    def topological_order"""), rules=["R15.5"])
add("m15k", ["C15"], (P, """        # if we still have jobs here it's not good either,
        # although it should not happen on a sanitized scheduler
        if nb_marked != target_marked:""", """        if False:"""), expect='silent',
    note="the post-loop check is redundant with the loop's own exits")
add("m15l", ["C15"], (P, """            if nb_marked >= target_marked:
                # we're done
                break""", """            if nb_marked >= 1:
                # we're done
                break"""), rules=["R15.4"], note="stops after the first pass")
add("m15m", ["C15"], (P, "    def list(self, details=False):", "    def list(self, details=False, _unused=None):"), expect='silent')
add("m15n", ["C15", "C20"], (P, """        self._set_sched_ids()
        for job in self.topological_order():
            job._list(details, 0, True)                 # pylint: disable=W0212""", """        self._set_sched_ids()
        for job in self.jobs:
            job._list(details, 0, True)                 # pylint: disable=W0212"""), rules=["R15.5", "R20.3"])
add("b04c", ["C15"], (P, """                has_unmarked_requirements = False
                for required_job in job.required:
                    if required_job._s_mark is None:    # pylint: disable=W0212
                        has_unmarked_requirements = True
                if not has_unmarked_requirements:""", """                if all(required_job._s_mark is not None for required_job in job.required):"""),
    expect='silent')

# ------------------------------------------------------------------ C16
add("m16a", ["C16"], (P, "                changes = (not job.sanitize(verbose)) or changes", "                changes = changes or (not job.sanitize(verbose))"),
    rules=["R16.3"])
add("m16b", ["C16"], (P, "                changes = (not job.sanitize(verbose)) or changes", "                changes = job.sanitize(verbose) or changes"),
    rules=["R16.4"])
add("m16c", ["C16"], (P, "        return not changes\n", "        return changes\n"), rules=["R16.4"])
add("m16d", ["C16"], (P, "            job.required &= self.jobs\n", "            job.required &= set(self.iterate_jobs())\n"),
    rules=["R16.1", "R16.2"])
add("m16e", ["C16"], (P, """            if before != after:
                changes = True""", """            if before != after:
                changes = False"""), rules=["R16.4"])
add("m16f", ["C16"], (P, "            if isinstance(job, PureScheduler):\n                changes = (not", "            if isinstance(job, PureScheduler) and not changes:\n                changes = (not"),
    rules=["R16.3"])
add("m16g", ["C16"], (P, "            job.required &= self.jobs\n", "            if not job.forever:\n                job.required &= self.jobs\n"),
    rules=["R16.1", "R16.2"])
add("m16h", ["C16"], (P, "            job.required &= self.jobs\n", "            job.required |= self.jobs\n"),
    rules=["R16.1", "R16.2"])
add("m16i", ["C16"], (P, """                changes = (not job.sanitize(verbose)) or changes""", """                job.sanitize(verbose)"""),
    rules=["R16.4"])
add("b19", ["C16"], [(P, "        changes = False\n        for job in self.jobs:\n            before = len(job.required)",
                         "        fine = True\n        for job in self.jobs:\n            before = len(job.required)"),
                     (P, "            if before != after:\n                changes = True", "            if before != after:\n                fine = False"),
                     (P, "                changes = (not job.sanitize(verbose)) or changes", "                fine = job.sanitize(verbose) and fine"),
                     (P, "        return not changes\n", "        return fine\n")], expect='silent')
add("b19b", ["C16"], (P, "            job.required &= self.jobs\n", "            job.required = job.required & self.jobs\n"), expect='silent')

add('m16p', ["C16"], (P, '            before = len(job.required)\n            job.required &= self.jobs\n            job._s_successors &= self.jobs\n            after = len(job.required)\n            if before != after:\n', '            before = job.required\n            job.required &= self.jobs\n            job._s_successors &= self.jobs\n            after = len(job.required)\n            if before - job.required:\n'), rules=['R16.4'], note='seed C16-R3A: alias of a set pruned in place')
add('m16q', ["C16"], (P, '            before = len(job.required)\n            job.required &= self.jobs\n            job._s_successors &= self.jobs\n            after = len(job.required)\n            if before != after:\n', '            before = job.required\n            job.required.intersection_update(self.jobs)\n            job._s_successors &= self.jobs\n            after = 0\n            if len(before) != len(job.required):\n'), rules=['R16.4'])
add('b16p', ["C16"], (P, '            before = len(job.required)\n            job.required &= self.jobs\n            job._s_successors &= self.jobs\n            after = len(job.required)\n            if before != after:\n', '            before = set(job.required)\n            job.required &= self.jobs\n            job._s_successors &= self.jobs\n            after = len(job.required)\n            if before - job.required:\n                before = len(before)\n'), expect='silent')
add('b16q', ["C16"], (P, '            before = len(job.required)\n            job.required &= self.jobs\n            job._s_successors &= self.jobs\n            after = len(job.required)\n            if before != after:\n', '            dangling = job.required - self.jobs\n            job.required -= dangling\n            job._s_successors &= self.jobs\n            before, after = len(dangling), 0\n            if dangling:\n'), expect='nofalse')
add('b16r', ["C16"], (P, '            before = len(job.required)\n            job.required &= self.jobs\n            job._s_successors &= self.jobs\n            after = len(job.required)\n            if before != after:\n', '            before = job.required\n            job.required = job.required & self.jobs\n            job._s_successors &= self.jobs\n            after = len(job.required)\n            if before - job.required:\n                before = len(before)\n'), expect='silent', note='rebinding leaves the alias with the old contents')
# ------------------------------------------------------------------ C17
add("m17a", ["C17"], [(P, '        return self._neighbours("required", *starts)', '        return self._neighbours("_s_successors", *starts)'),
                      (P, '        yield from self._neighbours("_s_successors", *starts)', '        yield from self._neighbours("required", *starts)')],
    rules=["R17.1"])
add("m17b", ["C17"], (P, """        if compute_backlinks:
            self._backlinks()
        return self._neighbours_closure("_s_successors", *starts)""", """        return self._neighbours_closure("_s_successors", *starts)"""),
    rules=["R17.2"])
add("m17b2", ["C17"], (P, "    def successors_downstream(self, *starts: AbstractJob, compute_backlinks=True)",
                       "    def successors_downstream(self, *starts: AbstractJob, compute_backlinks=False)"), rules=["R17.2"])
add("m17c", ["C17"], (P, """            if not changes:
                break
        return closure""", """            break
        return closure"""), rules=["R17.4"])
add("m17d", ["C17"], (P, "        closure = set(self._neighbours(attname, *starts))", "        closure = set(starts)"), rules=["R17.4"])
add("m17e", ["C17"], (P, """                if next not in neighbours:
                    neighbours.add(next)
        return neighbours""", """                if next not in neighbours:
                    neighbours.add(next)
            return neighbours
        return neighbours"""), rules=["R17.3"])
add("m17f", ["C17"], (P, """            if discard_forever and job.forever:
                continue
""", ""), rules=["R17.5"])
add("m17g", ["C17"], (S, """        for job in self.jobs:
            yield from job._iterate_jobs(
                scan_schedulers=scan_schedulers)""", """        for job in self.jobs:
            yield job"""), rules=["R17.6"])
add("m17h", ["C17"], (P, """                # just in case
                if next not in self.jobs:
                    continue
""", ""), rules=["R17.3"])
add("m17i", ["C17"], (P, """                    if next not in closure:
                        closure.add(next)
                        changes += 1""", """                    if next not in closure:
                        closure.add(next)"""), rules=["R17.4"])
add("m17j", ["C17"], (P, """        for job in self.jobs:
            if not job.required:
                yield job""", """        for job in self.jobs:
            if not job.required and not job.forever:
                yield job"""), rules=["R17.5"])
add("m17k", ["C17"], (P, "            if not job._s_successors:                   # pylint: disable=w0212", "            if not job.required:                   # pylint: disable=w0212"),
    rules=["R17.5"])
add("m17l", ["C17"], (P, '        return self._neighbours_closure("required", *starts)', '        return self._neighbours("required", *starts)'),
    rules=["R17.1"])
add("m17m", ["C17"], (P, "                for next in self._neighbours(attname, start):", "                for next in self._neighbours('required', start):"),
    rules=["R17.1"])
add("m17n", ["C17"], (S, """        if scan_schedulers:
            yield self
        for job in self.jobs:
            yield from job._iterate_jobs(""", """        yield self
        for job in self.jobs:
            yield from job._iterate_jobs("""), rules=["R17.6"])
add("m17o", ["C17"], (S, """        for job in self.jobs:
            yield from job._iterate_jobs(
                scan_schedulers=scan_schedulers)""", """        yield from PureScheduler.iterate_jobs(self)"""), rules=["R17.6"],
    note="seed C17-R2C: the nested traversal reuses the public entry and drops the flag")
add("m17p", ["C17"], (S, """            yield from job._iterate_jobs(
                scan_schedulers=scan_schedulers)""", """            yield from job._iterate_jobs(
                scan_schedulers=False)"""), rules=["R17.6"])
add("b17o", ["C17"], (S, """        if scan_schedulers:
            yield self
        for job in self.jobs:
            yield from job._iterate_jobs(
                scan_schedulers=scan_schedulers)""", """        yield from PureScheduler.iterate_jobs(self, scan_schedulers)"""), expect='silent')
add('b17q', ["C17"], (P, '        neighbours = set()\n        for start in starts:\n            for next in getattr(start, attname):\n                # just in case\n                if next not in self.jobs:\n                    continue\n                if next not in neighbours:\n                    neighbours.add(next)\n        return neighbours\n', '        return {next for start in starts for next in getattr(start, attname) if next in self.jobs}\n'), expect='silent')
add('b17r', ["C17"], (P, '        neighbours = set()\n        for start in starts:\n            for next in getattr(start, attname):\n                # just in case\n                if next not in self.jobs:\n                    continue\n                if next not in neighbours:\n                    neighbours.add(next)\n        return neighbours\n', '        return set(n for s in starts for n in getattr(s, attname) if n in self.jobs)\n'), expect='silent')
add('m17q', ["C17"], (P, '        neighbours = set()\n        for start in starts:\n            for next in getattr(start, attname):\n                # just in case\n                if next not in self.jobs:\n                    continue\n                if next not in neighbours:\n                    neighbours.add(next)\n        return neighbours\n', '        return {next for start in starts for next in getattr(start, attname)}\n'), rules=['R17.3'])
add('m17r', ["C17"], (P, '        neighbours = set()\n        for start in starts:\n            for next in getattr(start, attname):\n                # just in case\n                if next not in self.jobs:\n                    continue\n                if next not in neighbours:\n                    neighbours.add(next)\n        return neighbours\n', '        return {next for start in starts for next in start.required if next in self.jobs}\n'), rules=['R17.3'])
add('m17s', ["C17"], (P, '        neighbours = set()\n        for start in starts:\n            for next in getattr(start, attname):\n                # just in case\n                if next not in self.jobs:\n                    continue\n                if next not in neighbours:\n                    neighbours.add(next)\n        return neighbours\n', '        return {next for start in starts for next in getattr(start, attname) if next in self.jobs and next not in starts}\n'), rules=['R17.3'])
add('m17t', ["C17"], (P, '        neighbours = set()\n        for start in starts:\n            for next in getattr(start, attname):\n                # just in case\n                if next not in self.jobs:\n                    continue\n                if next not in neighbours:\n                    neighbours.add(next)\n        return neighbours\n', '        return {next for next in getattr(starts[0], attname) if next in self.jobs}\n'), rules=['R17.3'])
add("b17a", ["C17"], (P, """                if next not in neighbours:
                    neighbours.add(next)""", """                neighbours.add(next)"""), expect='silent')

# ------------------------------------------------------------------ C18
add("m18a", ["C18"], (P, "        preserved = downwards & upwards", "        preserved = downwards | upwards"), rules=["R18.3"])
add("m18b", ["C18"], (P, """        if keep_starts:
            preserved.update(starts)""", """        if keep_starts:
            preserved.update(ends)"""), rules=["R18.3"])
add("m18c", ["C18"], (P, """        self.jobs &= set(remains)
        self.sanitize()""", """        self.jobs &= set(remains)"""), rules=["R18.1"])
add("m18d", ["C18"], (P, """        # remove job from the downstreams requirements
        for down in downstreams:
            down.required.remove(job)
""", ""), rules=["R18.1", "R18.2"])
add("m18e", ["C18"], (P, "                down.requires(up)", "                up.requires(down)"), rules=["R18.2"])
add("m18f", ["C18"], (P, "        downwards = self.successors_downstream(*starts) if starts else self.jobs",
                      "        downwards = self.successors_downstream(*ends) if starts else self.jobs"), rules=["R18.3"])
add("m18g", ["C18"], (P, "        upwards = self.predecessors_upstream(*ends) if ends else self.jobs",
                      "        upwards = self.predecessors_upstream(*ends) if ends else set()"), rules=["R18.3"])
add("m18h", ["C18"], (P, """        if job not in self.jobs:
            raise ValueError(f"job {job} is not in {self}")
""", ""), rules=["R18.2"])
add("m18i", ["C18"], (P, "        downstreams = {down for down in self.jobs if job in down.required}",
                      "        downstreams = {down for down in self.jobs if job in down.required and not down.forever}"),
    rules=["R18.2"])
add("m18j", ["C18"], (P, """        # remove the job altogether
        self.jobs.remove(job)
""", ""), rules=["R18.2"])
add("m18k", ["C18"], (P, "        self.jobs &= set(remains)\n", "        self.jobs -= set(remains)\n"), rules=["R18.3"])
add("m18l", ["C18"], (P, """        self.jobs = preserved
        self.sanitize()""", """        self.jobs = preserved"""), rules=["R18.1"])
add("m18m", ["C18"], (P, """            for down in downstreams:
                down.requires(up)""", """            for down in downstreams:
                down.requires(up)
                break"""), rules=["R18.2"])
add("b21", ["C18"], (P, "        preserved = downwards & upwards", "        preserved = upwards & downwards"), expect='silent')

# ------------------------------------------------------------------ C19
add("m19a", ["C19"], (J, "                    self.requires(requirement.jobs[-1], remove=remove)", "                    self.requires(requirement.jobs[0], remove=remove)"),
    rules=["R19.4"])
add("m19b", ["C19"], (Q, """        for job1, job2 in zip(self.jobs, self.jobs[1:]):
            job2.requires(job1)""", """        for job1, job2 in zip(self.jobs, self.jobs[1:]):
            job1.requires(job2)"""), rules=["R19.1"])
add("m19c", ["C19"], (J, """        if job is not self:
            self.required.add(job)""", """        self.required.add(job)"""), rules=["R19.4"])
add("m19d", ["C19"], (Q, """        for job1, job2 in zip(new_jobs, new_jobs[1:]):
            job2.requires(job1)
""", ""), rules=["R19.1"])
add("m19e", ["C19"], (Q, """        if not new_jobs:
            # nothing but None's or empty sequences
            return
""", """        if not self.jobs:
            # nothing but None's or empty sequences
            return
"""), rules=["R19.2"])
add("m19f", ["C19"], (J, """                for req in list(requirement):
                    self.requires(req, remove=remove)""", """                for req in list(requirement):
                    self.requires(req)"""), rules=["R19.3"])
add("m19g", ["C19"], (Q, """        if self.jobs:
            self.jobs[0].requires(required)""", """        if self.jobs:
            self.jobs[-1].requires(required)"""), rules=["R19.4"])
add("m19h", ["C19"], (J, "                    self.requires(requirement.jobs[-1], remove=remove)", "                    self._add_one_requirement(requirement.jobs[-1])"),
    rules=["R19.3"])
add("m19i", ["C19"], (J, "                    self.required.remove(requirement)", "                    self.required.discard(requirement)"), rules=["R19.3"])
add("m19j", ["C19"], (J, """            if requirement is None:
                continue
""", ""), rules=["R19.4"])
add("m19k", ["C19"], (Q, """        self.jobs += new_jobs
        if self.scheduler is not None:
            self.scheduler.update(new_jobs)""", """        self.jobs += new_jobs"""), rules=["R19.5"])
add("m19l", ["C19"], (Q, """        if self.jobs:
            new_jobs[0].requires(self.jobs[-1])
""", ""), rules=["R19.1"])
add("m19m", ["C19"], (J, """                if requirement.jobs:
                    self.requires(requirement.jobs[-1], remove=remove)""", """                self.requires(requirement.jobs[-1], remove=remove)"""), rules=["R19.2"])
add("m19n", ["C19"], (J, """        if scheduler is not None:
            scheduler.add(self)
""", ""), rules=["R19.5"])
add("m19o", ["C19"], (P, """        self.update([job])
        return job""", """        self.jobs.add(job)
        return job"""), rules=["R19.5"])
add("b22", ["C19"], (Q, """        if not sequences_or_jobs:
            return
""", ""), expect='silent')

# ------------------------------------------------------------------ C20
add("m20a", ["C20"], (D, """        result = string.replace('"', r'\\"')""", """        result = string"""), rules=["R20.1"])
add("m20b", ["C20"], (P, """                result += job.repr_id()
                result += ' [{}]\\n'.format(job.dot_style())""", """                result += job.repr_id()
                result += ' [label={}]\\n'.format(job._get_graph_label())"""), rules=["R20.1"])
add("m20c", ["C20"], (P, """                        result += ("{} -> {};\\n"
                                   .format(req.repr_id(), job.repr_id()))""", """                        result += ("{} -> {};\\n"
                                   .format(job.repr_id(), req.repr_id()))"""), rules=["R20.2"])
add("m20d", ["C20"], (P, """                        result += ("{} -> {};\\n"
                                   .format(req.repr_id(), job.repr_id()))""", """                        pass"""), rules=["R20.2"])
add("m20d2", ["C20"], (P, """                        result += ("{} -> {};\\n"
                                   .format(req.repr_id(), job.repr_id()))""", """                        result += ("{} -> {};\\n"
                                   .format(req.repr_id(), job.repr_id()))
                        result += ("{} -> {};\\n"
                                   .format(req.repr_id(), job.repr_id()))"""), rules=["R20.2"])
add("m20e", ["C20"], (P, """        self._set_sched_ids()
        return "digraph asynciojobs" + self._dot_body(DotStyle())""", """        return "digraph asynciojobs" + self._dot_body(DotStyle())"""),
    rules=["R20.3"])
add("m20f", ["C20"], (P, """        result += "}\\n"
        return result""", """        return result"""), rules=["R20.5"])
add("m20g", ["C20"], (P, """                        result += ("{} -> {} [lhead={}];\\n"
                                   .format(req.repr_id(),
                                           job._middle_entry_job().repr_id(),
                                           cluster_name))""", """                        result += ("{} -> {} [ltail={}];\\n"
                                   .format(req.repr_id(),
                                           job._middle_entry_job().repr_id(),
                                           cluster_name))"""), rules=["R20.2"])
add("m20h", ["C20"], (P, """                                   .format(req._middle_exit_job().repr_id(),
                                           job._middle_entry_job().repr_id(),
                                           cluster_name,
                                           src_cluster_name))""", """                                   .format(req._middle_exit_job().repr_id(),
                                           job._middle_entry_job().repr_id(),
                                           src_cluster_name,
                                           cluster_name))"""), rules=["R20.2"])
add("m20i", ["C20"], (S, """        return "cluster_{}"\\
               .format(self._sched_id)""", """        return "sub_{}"\\
               .format(self._sched_id)"""), rules=["R20.2"])
add("m20j", ["C20"], (S, """        i = AbstractJob._set_sched_id(self,
                                      start, id_format)
        # go on with the jobs in sub scheduler
        return PureScheduler._set_sched_ids(self,
                                            i, id_format)""", """        i = AbstractJob._set_sched_id(self,
                                      start, id_format)
        PureScheduler._set_sched_ids(self, i, id_format)
        return i"""), rules=["R20.3"])
add("m20k", ["C20"], (D, """        if isinstance(value_s, list):
            return DotStyle.protect(format(",".join(v for v in value_s)))""", """        if isinstance(value_s, list):
            return format(",".join(v for v in value_s))"""), rules=["R20.1"])
add("m20l", ["C20"], (P, """                        from_node = req._middle_exit_job()
                        cluster_name = req.dot_cluster_name()
                        result += ("{} -> {} [ltail={}];\\n"
                                   .format(from_node.repr_id(),""", """                        from_node = req
                        cluster_name = req.dot_cluster_name()
                        result += ("{} -> {} [ltail={}];\\n"
                                   .format(from_node.repr_id(),"""), rules=["R20.2"])
add("m20m", ["C20"], (P, """        result += "compound=true;\\n\"""", """        result += "compound=true\\n\""""), rules=["R20.5"])
add("b23", ["C20"], (D, """        # and put double quotes around all this
        return '"{}"'.format(result)""", """        return '"' + result + '"'"""), expect='silent')
add("b24", ["C20"], (P, """        result = ""
        result += "{\\n\"""", """        result = "{\\n\""""), expect='silent')

# ------------------------------------------------------------------ extra
add("m02i", ["C02", "C14"], (W, "                value = await job.co_run()\n", "                value = await job.co_run()\n                if value is None:\n                    value = await job.co_run()\n"),
    rules=["R02.4", "R14.2w"], note="retry when the body returns None")

# ------------------------------------------------------------------ more benign refactorings
ALLRUN = ["C01", "C02", "C03", "C04", "C05", "C06", "C08", "C09", "C11", "C12", "C13"]
add("b08", ALLRUN, [(P, """                await self._feedback(pending, "TIDYING forever")
                await self._tidy_tasks(pending)
                await self.co_shutdown()
                return True""", """                await self._feedback(pending, "TIDYING forever")
                await self._leave(pending)
                return True"""),
                    (P, """    def _total_length(self):""", """    async def _leave(self, pending):
        await self._tidy_tasks(pending)
        await self.co_shutdown()

    def _total_length(self):""")], expect='silent', note="exit sequence factored into a helper")
add("b30", ALLRUN, (P, """            if not done:
                await self._feedback(None,
                                     "PureScheduler.co_run: TIMEOUT occurred",
                                     force=True)""", """            timed_out = not done
            if timed_out:
                await self._feedback(None,
                                     "PureScheduler.co_run: TIMEOUT occurred",
                                     force=True)"""), expect='silent')
add("b31", ALLRUN, (P, """            critical_failure = False
            for done_task in done:
                done_job = done_task._job               # pylint: disable=W0212
                if done_job.raised_exception() is not None:
                    critical_failure = critical_failure \\
                        or done_job.is_critical()
""", """            critical_failure = False
            for done_task in done:
                done_job = done_task._job               # pylint: disable=W0212
                if done_job.raised_exception() is not None:
                    if done_job.is_critical():
                        critical_failure = True
"""), expect='silent')
add("b32", ALLRUN, (P, """        nb_jobs_finite = len([j for j in self.jobs if not j.forever])""",
                    """        nb_jobs_finite = sum(1 for j in self.jobs if not j.forever)"""), expect='nofalse')
add("b33", ALLRUN, (P, """            done, pending \\
                = await asyncio.wait(pending,
                                     timeout=self._remaining_timeout(),
                                     return_when=asyncio.FIRST_COMPLETED)
""", """            remaining = self._remaining_timeout()
            done, pending = await asyncio.wait(
                pending, timeout=remaining, return_when=asyncio.FIRST_COMPLETED)
"""), expect='silent')
add("b34", ALLRUN, (P, """            for candidate_next in possible_next_jobs:
                # do not add an job twice; is_scheduled() is set as soon as
                # the task gets created, while is_running() only becomes true
                # once the job has obtained a slot in the window
                if candidate_next.is_scheduled():
                    continue
""", """            for candidate_next in possible_next_jobs:
                if not candidate_next.is_idle():
                    continue
"""), expect='silent')
add("b35", ALLRUN, (P, """        # empty schedulers are fine too
        if not self.jobs:
            return True
""", """        # empty schedulers are fine too
        if len(self.jobs) == 0:
            return True
"""), expect='nofalse')
add("b36", ["C11", "C13", "C05", "C08", "C09"], (S, """            await self._tidy_tasks(
                [job._task for job in self.jobs if job._task is not None])
            raise""", """            started = [job._task for job in self.jobs if job.is_scheduled()]
            await self._tidy_tasks(started)
            raise"""), expect='silent')
add("b37", ["C13", "C11"], (P, """        tasks = [asyncio.create_task(job.co_shutdown())
                 for job in self.jobs]
""", """        tasks = []
        for job in self.jobs:
            tasks.append(asyncio.create_task(job.co_shutdown()))
"""), expect='silent')
add("b38", ["C04", "C10"], (S, """        # fine
        if pure is True:
            return pure
        # non-critical : we're done
        if not self.critical:
            return pure""", """        # fine, or non-critical : we're done
        if pure is True or not self.critical:
            return pure"""), expect='silent')
add("b39", ["C15"], (P, """        nb_marked = 0
        target_marked = len(self.jobs)
""", """        target_marked = len(self.jobs)
        nb_marked = 0
"""), expect='silent')
add("b40", ["C16"], (P, """            before = len(job.required)
            job.required &= self.jobs
            job._s_successors &= self.jobs
            after = len(job.required)
            if before != after:""", """            nb_before = len(job.required)
            job.required &= self.jobs
            job._s_successors &= self.jobs
            if nb_before != len(job.required):"""), expect='silent')
add("b41", ["C19"], (Q, """        for job1, job2 in zip(new_jobs, new_jobs[1:]):
            job2.requires(job1)""", """        for before, after in zip(new_jobs, new_jobs[1:]):
            after.requires(before)"""), expect='silent')
add("b42", ["C14", "C01", "C03"], (J, """        return self._task is not None \\
            and self._task._state == asyncio.futures._FINISHED""", """        if self._task is None:
            return False
        return self._task._state == asyncio.futures._FINISHED"""), expect='silent')
add("b43", ["C20"], (P, """            # regular jobs
            if not isinstance(job, PureScheduler):
                # declare node""", """            is_nested = isinstance(job, PureScheduler)
            # regular jobs
            if not is_nested:
                # declare node"""), expect='nofalse')
add("b44", ["C18"], (P, """        for down in downstreams:
            down.required.remove(job)""", """        for downstream in downstreams:
            downstream.required.remove(job)"""), expect='silent')
add("b45", ["C17", "C18"], (P, """        for job in self.jobs:
            if not job.required:
                yield job""", """        for job in self.jobs:
            if job.required:
                continue
            yield job"""), expect='silent')

add("b46", ALLRUN + ["C07", "C10", "C14"], [(P, """        No automatic shutdown is performed, user needs to explicitly call
        :meth:`co_shutdown()` or :meth:`shutdown()`.
        \"\"\"
        # create a Window no matter what; it will know what to do""", """        No automatic shutdown is performed, user needs to explicitly call
        :meth:`co_shutdown()` or :meth:`shutdown()`.
        \"\"\"
        verdict = await self._co_run()
        return verdict

    async def _co_run(self):
        # create a Window no matter what; it will know what to do""")], expect='silent',
    note="co_run delegates to a private coroutine holding the loop")

# ------------------------------------------------------------------ rules added after the third seeding round
SCHED_TAIL = ("""        # we should not reach this point
        raise ValueError("Internal error in Scheduler.co_run()")
""")
add("m01s", ["C01", "C12", "C03"], (S, SCHED_TAIL, SCHED_TAIL + """
    def is_done(self):
        return all(job.is_done() for job in self.jobs if not job.forever)
"""), rules=["R01.3", "R12.8", "R03.2"], note="seeds C01-R3A / C12-R3C: done computed from the members, not from the scheduler's own task")
add("m14s", ["C14"], (S, SCHED_TAIL, SCHED_TAIL + """
    def is_running(self):
        return any(job.is_running() for job in self.jobs)
"""), rules=["R14.1"], note="seed C14-R3B")
add("m02s", ["C02", "C04", "C05", "C06", "C14"], (S, SCHED_TAIL, SCHED_TAIL + """
    def raised_exception(self):
        for job in self.jobs:
            if job.critical and job.raised_exception():
                return job.raised_exception()
        return None
"""), rules=["R02.6", "R04.7", "R05.7", "R06.7", "R14.1"], note="seed C02-R3C")
add("b01s", ["C01", "C12", "C14", "C02"], (S, SCHED_TAIL, SCHED_TAIL + """
    def is_done(self):
        return AbstractJob.is_done(self)

    def raised_exception(self):
        return AbstractJob.raised_exception(self)
"""), expect='silent', note="explicit overrides that delegate to the job side")
add("m04r", ["C04"], (P, "        return loop.run_until_complete(self.co_run(*args, **kwds))",
                      "        try:\n            return loop.run_until_complete(self.co_run(*args, **kwds))\n"
                      "        except Exception:\n            return False"), rules=["R04.6"])
add("m04s", ["C04"], (P, "        return loop.run_until_complete(self.co_run(*args, **kwds))",
                      "        return bool(loop.run_until_complete(asyncio.wait_for(self.co_run(*args, **kwds), self.timeout)))"),
    rules=["R04.6"])
add("m04t", ["C04"], (P, "        return loop.run_until_complete(self.co_run(*args, **kwds))",
                      "        loop.run_until_complete(self.co_run(*args, **kwds))\n        return not self.failed_critical()"),
    rules=["R04.6"])
add("b04r", ["C04"], (P, "        return loop.run_until_complete(self.co_run(*args, **kwds))",
                      "        verdict = loop.run_until_complete(self.co_run(*args, **kwds))\n        return verdict"),
    expect='silent')
add("m13r", ["C13"], (P, """        return asyncio.get_event_loop().run_until_complete(
            self.co_shutdown())""", """        asyncio.get_event_loop().run_until_complete(
            self.co_shutdown())
        return True"""), rules=["R13.7"])
add("m19r", ["C19"], (P, """        self.jobs.remove(job)
        return self""", """        self.jobs.remove(job)
        for other in self.jobs:
            other.required.discard(job)
        return self"""), rules=["R19.8"], note="seed C19-R3C")
add("m19s", ["C19"], (P, """        self.jobs.remove(job)
        return self""", """        self.jobs.remove(job)
        for other in self.jobs:
            reqs = other.required
            reqs -= {job}
        return self"""), rules=["R19.8"])
add("b19r", ["C19"], (P, """        self.jobs.remove(job)
        return self""", """        self.jobs.remove(job)
        dangling = [other for other in self.jobs if job in other.required]
        if dangling and self.verbose:
            print("WARNING", len(dangling), "jobs still require the removed job")
        return self"""), expect='silent')
add("m01t", ["C01"], (J, """        return self._task is not None \\
            and self._task._state == asyncio.futures._FINISHED""", """        if getattr(self, '_done_cache', False):
            return True
        self._done_cache = self._task is not None \\
            and self._task._state == asyncio.futures._FINISHED
        return self._done_cache"""), rules=["R01.6"], note="seed C01-R3C")
add("m20r", ["C20"], (P, """            id_format = "{{:0{w}d}}".format(w=width)""", """            id_format = "{{:{w}d}}".format(w=width)"""), rules=["R20.7"], note="seed C20-R3B")
add("m20s", ["C20"], (P, """            id_format = "{{:0{w}d}}".format(w=width)""", """            id_format = "# {{:0{w}d}}".format(w=width)"""), rules=["R20.7"])
add("b20r", ["C20"], (P, """            id_format = "{{:0{w}d}}".format(w=width)""", """            id_format = "{{:0>{w}d}}".format(w=width)"""), expect='silent')
add("m03w", ["C03", "C07", "C10"], [(P, "        window = Window(self.jobs_window, self.jobs)", "        window = getattr(self, '_outer_window', None) or Window(self.jobs_window, self.jobs)"),
                             (P, """        #
        # this is where we call co_run()
        #""", """        if isinstance(job, PureScheduler) and not job.jobs_window:
            job._outer_window = window
        #
        # this is where we call co_run()
        #""")], rules=["R03.6", "R07.3", "R10.2w"], note="seed C03-R3C")

# ------------------------------------------------------------------ F12: second cancellation
TIDYFIX = '            interrupted = None\n            while True:\n                try:\n                    await asyncio.wait(pending)\n                    break\n                except asyncio.CancelledError as exc:\n                    interrupted = exc\n            if interrupted is not None:\n                raise interrupted\n'
add("m11y", ["C11", "C05", "C08", "C09", "C10", "C13"], (P, TIDYFIX, "            await asyncio.wait(pending)\n"),
    rules=["R11.2", "R05.5", "R08.5", "R09.4", "R10.5", "R13.6"], note="F12 reverted: the wait for the cancelled tasks can be interrupted")
add("m11z", ["C11"], (P, TIDYFIX, "            await asyncio.shield(asyncio.wait(pending))\n"),
    rules=["R11.2", "R11.1", "R11.3"], note="a shielded wait goes on, but the scheduler leaves at once")
add("m11w", ["C11"], (P, """                except asyncio.CancelledError as exc:
                    interrupted = exc
""", """                except asyncio.CancelledError as exc:
                    interrupted = exc
                    break
"""), rules=["R11.2"])
add("b11y", ["C11", "C05", "C13"], (P, TIDYFIX, """            interrupted = None
            while not all(task.done() for task in pending):
                try:
                    await asyncio.wait(pending)
                except asyncio.CancelledError as exc:
                    interrupted = exc
            if interrupted is not None:
                raise interrupted
"""), expect='silent')
add("b11z", ["C11", "C05", "C13"], (P, TIDYFIX, """            interrupted = False
            while True:
                try:
                    await asyncio.wait(pending)
                except asyncio.CancelledError:
                    interrupted = True
                    continue
                break
            if interrupted:
                raise asyncio.CancelledError()
"""), expect='silent')

# ------------------------------------------------------------------ F13: a sequence never drops a requirement
add("m19t", ["C19"], (Q, """            self.jobs[0].requires(required)
        else:
            self._pending_required.append(required)
""", """            self.jobs[0].requires(required)
"""), rules=["R19.9"], note="F13 reverted (constructor)")
add("m19u", ["C19"], (Q, """        else:
            # this is the first job of the sequence: it inherits
            # the requirements received while the sequence was empty
            new_jobs[0].requires(self._pending_required)
            self._pending_required = []
""", ""), rules=["R19.9"], note="kept but never handed over")
add("m19v", ["C19"], (Q, """            # no first job yet, see append()
            self._pending_required.extend(requirements)
            return""", """            # no first job yet
            return"""), rules=["R19.9"], note="F13 reverted (requires)")
add("b19t", ["C19"], (Q, """        self._pending_required = []
        if self.jobs:
            self.jobs[0].requires(required)
        else:
            self._pending_required.append(required)
""", """        self._pending_required = [] if self.jobs else [required]
        if self.jobs:
            self.jobs[0].requires(required)
"""), expect='silent')

# ------------------------------------------------------------------ configuration is what the caller gave
add("m05x", ["C05", "C06", "C04"], (J, "        return self.critical\n", "        return self.critical and not self.forever\n"),
    rules=["R05.9", "R06.8", "R04.9"], note="is_critical() is no longer the flag")
add("m05y", ["C05", "C04"], (J, "        self.critical = critical\n", "        self.critical = critical and not forever\n"),
    rules=["R05.9", "R04.9"])
add("m09x", ["C09"], (J, "        self.forever = forever\n", "        self.forever = forever and not critical\n"), rules=["R09.6"])
add("m08x", ["C08", "C04"], (P, "        self.timeout = timeout\n", "        self.timeout = timeout or None\n"), rules=["R08.6", "R04.9"],
    note="a timeout of 0 becomes no timeout at all")
add("m07x", ["C07"], (P, "        self.jobs_window = jobs_window\n", "        self.jobs_window = jobs_window and max(jobs_window, 2)\n"), rules=["R07.5"])
add("m13x", ["C13"], (P, "        self.shutdown_timeout = shutdown_timeout\n", "        self.shutdown_timeout = shutdown_timeout or 1\n"), rules=["R13.8"])
add("m10x", ["C10"], (S, "                               jobs_window=jobs_window, timeout=timeout,", "                               jobs_window=jobs_window, timeout=timeout or None,"), rules=["R10.8"])
add("m08y", ["C08"], (P, "                self._failed_timeout = self.timeout\n", "                self._failed_timeout = self.timeout\n                self.timeout = None\n"), rules=["R08.6"])
add("b05x", ["C05", "C09", "C08"], (J, "        self.forever = forever\n        self.critical = critical\n", "        self.critical = critical\n        self.forever = forever\n"), expect='silent')
add("m13y", ["C13"], (J, "        if self.coshutdown:\n", "        if self.coshutdown and self.is_done():\n"), rules=["R13.9"],
    note="only jobs that completed are shut down")
add("m13z", ["C13"], (J, "        if self.coshutdown:\n", "        if not self.is_scheduled():\n            return None\n        if self.coshutdown:\n"), rules=["R13.9"])
add("b13y", ["C13"], (J, "        if self.coshutdown:\n", "        if self.coshutdown is not None:\n"), expect='silent')

# ------------------------------------------------------------------ F14: an exception object is not a boolean
add("m05t", ["C05", "C02", "C04"], (P, "                if done_job.raised_exception() is not None:\n", "                if done_job.raised_exception():\n"),
    rules=["R05.8", "R02.7", "R04.8"], note="F14 reverted (run)")
add("m04u", ["C04", "C05"], (S, "                if exc is not None:\n", "                if exc:\n"), rules=["R04.8", "R05.8"], note="F14 reverted (nested form)")
add("b05t", ["C05", "C02", "C04", "C06"], (P, "                if done_job.raised_exception() is not None:\n",
                                         "                failure = done_job.raised_exception()\n                if failure is not None:\n"), expect='silent')

# ------------------------------------------------------------------ rules added after the fourth seeding round
add("m10y", ["C10", "C01", "C09"], (S, "        AbstractJob.__init__(self, **kwds)", "        kwds.pop('forever', None)\n        AbstractJob.__init__(self, **kwds)"),
    rules=["R10.9", "R01.7", "R09.7"], note="a keyword popped from **kwds before it is handed on")
add("m04v", ["C04"], [(P, """        # empty schedulers are fine too
        if not self.jobs:
            return True

""", ""), (P, """        # create a Window no matter what; it will know what to do
        # also if jobs_window is None
        window = Window(self.jobs_window, self.jobs)
""", """        # empty schedulers are fine too
        if not self.jobs:
            return True
        # create a Window no matter what; it will know what to do
        # also if jobs_window is None
        window = Window(self.jobs_window, self.jobs)
""")], rules=["R04.1"], note="seed C04-R4A")
add("m11v", ["C11"], (P, "        window = Window(self.jobs_window, self.jobs)\n", "        window = Window(self.jobs_window, self.jobs)\n        if self.verbose:\n            asyncio.create_task(window.monitor())\n"),
    rules=["R11.1", "R11.2"], note="seed C11-R4C: a task no exit path cancels or awaits")
add("m14v", ["C14", "C11", "C10"], (S, """                [job._task for job in self.jobs if job._task is not None])
            raise""", """                [job._task for job in self.jobs if job._task is not None])
            if self.critical:
                raise
            pure = False"""), rules=["R14.4", "R11.5", "R10.11"], note="seed C14-R4B")
add("m18v", ["C18"], (P, "        self.jobs &= set(remains)\n", "        if self.verbose:\n            print('dropping', [j for j in self.jobs if j not in remains])\n        self.jobs &= set(remains)\n"),
    rules=["R18.6"], note="seed C18-R4C")
add("b18v", ["C18"], (P, "        self.jobs &= set(remains)\n", "        remains = set(remains)\n        if self.verbose:\n            print('dropping', [j for j in self.jobs if j not in remains])\n        self.jobs &= remains\n"),
    expect='silent')
add("m20v", ["C20"], (J, """        attempt = self.label
        if attempt is not None:
            return attempt
""", """        attempt = self.label
        if attempt is not None:
            return attempt.strip()
"""), rules=["R20.9"])
add("m19w", ["C19", "C10"], [(Q, "        self._pending_required = []\n        if self.jobs:", "        if self.jobs:"),
                             (Q, "    def __init__(self, *sequences_or_jobs, required=None, scheduler=None):", "    _pending_required: list = []\n\n    def __init__(self, *sequences_or_jobs, required=None, scheduler=None):")],
    rules=["R19.10", "R10.10"], note="seed C19-R4C")
add("m08z", ["C08", "C11", "C05"], (S, "                [job._task for job in self.jobs if job._task is not None])", "                (job._task for job in self.jobs if job._task is not None))"),
    rules=["R08.5", "R11.2", "R05.5"], note="seed C08-R4C: a generator expression is exhausted by the cancel loop")

# ------------------------------------------------------------------ F15: no live iteration while removing (R19.11)
_F15 = """                for req in list(requirement):
                    self.requires(req, remove=remove)
"""
add("m19x", ["C19"], (J, _F15, """                for req in requirement:
                    self.requires(req, remove=remove)
"""), rules=["R19.11"], note="reverts fix F15")
add("m19y", ["C19"], (J, _F15, """                for req in iter(requirement):
                    self.requires(req, remove=remove)
"""), rules=["R19.11"], note="a lazy wrapper is no snapshot")
add("m19z", ["C19"], [(J, _F15, """                self._require_all(requirement, remove)
"""), (J, "    def requires(self, *requirements, remove=False)", """    def _require_all(self, collection, remove):
        for req in collection:
            self.requires(req, remove=remove)

    def requires(self, *requirements, remove=False)""")], rules=["R19.11"], note="the live loop moved to a helper")
add("m19z2", ["C19"], [(J, _F15, """                for req in self._walk(requirement):
                    self.requires(req, remove=remove)
"""), (J, "    def requires(self, *requirements, remove=False)", """    @staticmethod
    def _walk(collection):
        for item in collection:
            yield item

    def requires(self, *requirements, remove=False)""")], rules=["R19.11"], note="a generator iterates its argument live, interleaved with the removals")
add("b19x", ["C19"], (J, _F15, """                for req in tuple(requirement):
                    self.requires(req, remove=remove)
"""), expect='silent')
add("b19y", ["C19"], (J, _F15, """                snapshot = requirement.copy() if isinstance(requirement, set) else requirement
                if isinstance(snapshot, (set, frozenset)):
                    for req in list(snapshot):
                        self.requires(req, remove=remove)
                    continue
                if isinstance(requirement, (tuple, list)):
                    for req in requirement:
                        self.requires(req, remove=remove)
"""), expect='silent', note="a list or a tuple cannot be the `required` set")
add("b19z", ["C19"], [(J, _F15, """                self._require_all(list(requirement), remove)
"""), (J, "    def requires(self, *requirements, remove=False)", """    def _require_all(self, collection, remove):
        for req in collection:
            self.requires(req, remove=remove)

    def requires(self, *requirements, remove=False)""")], expect='nofalse', note="the snapshot is taken by the caller: the helper's own loop cannot tell (inconclusive at worst)")
add("b19z2", ["C19"], (J, _F15, """                if remove:
                    for req in list(requirement):
                        self.requires(req, remove=True)
                else:
                    for req in requirement:
                        self.requires(req, remove=False)
"""), expect='silent', note="adding what is already there does not change the set")

# ------------------------------------------------------------------ F16 / F17: the window closes when the run is over
_GATE = """                if self.closed:
                    # the run was over before we could obtain a slot, the
                    # scheduler is about to cancel us: wait for that
                    await asyncio.get_running_loop().create_future()
"""
_COUNT = """                if not job.forever:
                    self.nb_finite -= 1
                    if self.nb_finite == 0:
                        self.closed = True
"""
add("mF16a", ["C05"], (W, """                if not release:
                    self.closed = True
                raise""", """                raise"""), rules=["R05.11"], note="F16 reverted: the failure of a critical job does not close the window")
add("mF16b", ["C05", "C09"], [(W, _GATE, ""), (W, """            await self.queue.put(1)
            release = True
""", """            if self.closed:
                await asyncio.get_running_loop().create_future()
            await self.queue.put(1)
            release = True
""")], rules=["R05.11", "R09.8"], note="the window is looked at before the wait for a slot, not after")
add("mF16c", ["C05", "C09"], (W, _GATE, ""), rules=["R05.11", "R09.8"], note="no gate at all")
add("mF17a", ["C09"], (W, _COUNT, ""), rules=["R09.8"], note="F17 reverted: completions are not counted")
add("mF17b", ["C09"], (W, _COUNT, """                self.nb_finite -= 1
                if self.nb_finite == 0:
                    self.closed = True
"""), rules=["R09.8"], note="forever jobs that end are counted too: the window closes early")
add("mF17c", ["C09"], (P, "window = Window(self.jobs_window, self.jobs)", "window = Window(self.jobs_window)"), rules=["R09.8"],
    note="the window is not told which jobs it has to count")
add("mF17d", ["C09"], (W, "                    if self.nb_finite == 0:\n", "                    if self.nb_finite < 0:\n"), rules=["R09.8"])
add("mF17e", ["C09"], (W, "        self.nb_finite = len([job for job in jobs if not job.forever])", "        self.nb_finite = len(jobs)"),
    rules=["R09.8"], note="counts the forever jobs as well: never reaches zero")
add("bF16a", ["C05", "C09", "C03", "C12"], (W, "                    await asyncio.get_running_loop().create_future()", "                    await asyncio.Future()"),
    expect='silent')
add("bF17a", ["C09", "C05"], [(W, "        self.nb_finite = len([job for job in jobs if not job.forever])",
                              "        self.nb_finite = sum(1 for job in jobs if not job.forever)"),
                             (W, "                    if self.nb_finite == 0:\n", "                    if self.nb_finite <= 0:\n")], expect='silent')
add("bF17b", ["C09", "C05"], [(W, _COUNT, """                self._job_over(job)
"""), (W, "    def run_job(self, job):", """    def _job_over(self, job):
        if job.forever:
            return
        self.nb_finite -= 1
        if not self.nb_finite:
            self.closed = True

    def run_job(self, job):""")], expect='silent')
add("bF16b", ["C05", "C09"], (W, "                if self.closed:\n", "                if self.jobs_window and self.closed:\n"), expect='silent',
    note="without a window nobody ever waits for a slot")
add("mF16d", ["C05", "C09"], (W, "                if self.closed:\n", "                if self.closed and job.is_critical():\n"),
    rules=["R05.11", "R09.8"], note="the gate holds back critical jobs only")

# ------------------------------------------------------------------ round 6
add("mR6a", ["C19"], (P, "        self.jobs.remove(job)\n        return self\n", "        self.jobs.remove(job)\n        self.sanitize()\n        return self\n"),
    rules=["R19.12"], note="seed C19-R6C")
add("mR6b", ["C16", "C19"], (J, "        self.required = BestSet()\n        self.requires(required)\n",
                             "        if isinstance(required, BestSet):\n            self.required = required\n        else:\n            self.required = BestSet()\n            self.requires(required)\n"),
    rules=["R16.7", "R19.8"], note="seed C16-R6A")
add("mR6c", ["C03", "C13"], [(P, "                 shutdown_timeout=1,", "                 shutdown_timeout=None,"),
                             (S, "                 shutdown_timeout=1,", "                 shutdown_timeout=None,")],
    rules=["R03.7", "R13.11"], note="seed C03-R6C")
add("mR6d", ["C15", "C20"], (J, "        self._sched_id = str(id_format.format(start))\n",
                             "        if self._sched_id is None:\n            self._sched_id = str(id_format.format(start))\n"),
    rules=["R15.5n", "R20.3"], note="seed C15-R6B")
add("mR6e", ["C17", "C18", "C12"], (P, "        for job in self.jobs:\n            job._s_successors = BestSet()               # pylint: disable=W0212\n",
                                    "        signature = (len(self.jobs), sum(len(job.required) for job in self.jobs))\n        if signature == getattr(self, '_backlinks_signature', None):\n            return\n        self._backlinks_signature = signature\n        for job in self.jobs:\n            job._s_successors = BestSet()               # pylint: disable=W0212\n"),
    rules=["R17.2", "R18.q2", "R12.3"], note="seed C17-R6A")
add("mR6f", ["C07"], (W, "        self.jobs_window = jobs_window\n        self.queue = asyncio.Queue(maxsize=jobs_window)\n",
                      "        self.jobs_window = jobs_window\n        if len(jobs) <= jobs_window:\n            jobs_window = 0\n        self.queue = asyncio.Queue(maxsize=jobs_window)\n"),
    rules=["R07.2"], note="seed C07-R6A")
add("bR6f", ["C07", "C12"], (W, "        if jobs_window is None:\n            jobs_window = 0\n", "        if jobs_window is None or jobs_window <= 0:\n            jobs_window = 0\n"),
    expect='silent')

# ------------------------------------------------------------------ round 7
_SAN_OLD = """        changes = False
        for job in self.jobs:
            before = len(job.required)
            job.required &= self.jobs
            job._s_successors &= self.jobs
            after = len(job.required)
            if before != after:
                changes = True
                if verbose:
                    print(10 * '*',
                          "WARNING: job {} in {} had {} requirements removed"
                          .format(job, container_label, before - after))
            # recursively scan nested schedulers
            # sanitize() returns True when nothing had to be changed
            if isinstance(job, PureScheduler):
                changes = (not job.sanitize(verbose)) or changes
        return not changes
"""
_SAN_NEW = """        total = sum(len(job.required) for job in self.iterate_jobs(%s))
        for job in self.jobs:
            job.required &= self.jobs
            job._s_successors &= self.jobs
            if isinstance(job, PureScheduler):
                job.sanitize(verbose)
        return total == sum(len(job.required) for job in self.iterate_jobs(%s))
"""
add("mR7a", ["C16"], (P, _SAN_OLD, _SAN_NEW % ("", "")), rules=["R16.4"],
    note="seed C16-R7B: the verdict compares a count that leaves nested scheduler objects out")
add("bR7a", ["C16"], (P, _SAN_OLD, _SAN_NEW % ("scan_schedulers=True", "scan_schedulers=True")), expect='silent',
    note="the same verdict over a walk that reaches every object sanitize() may prune")
add("mR7b", ["C13", "C11"], (P, "        if pending:\n            for task in pending:\n                task.cancel()\n",
                             "        if pending:\n            await self._feedback(pending, \"TIDYING\")\n            for task in pending:\n                task.cancel()\n"),
    rules=["R13.12", "R11.7"], note="seed C13-R7C: the tidy helper reads task._job, which handler tasks do not have")
add("mR7c", ["C12", "C03"], [(P, "            added = 0\n            for candidate_next in possible_next_jobs:\n",
                              "            added = 0\n            requirements_ok = True\n            for candidate_next in possible_next_jobs:\n"),
                             (P, "                # we can start only if all requirements are satisfied\n                requirements_ok = True\n", "")],
    rules=["R12.4", "R03.2g"], note="seed C12-R7A: the guard flag is carried from one candidate to the next")
add("mR7d", ["C14", "C12"], (W, "                if release:\n                    await self.queue.get()\n",
                             "                if release:\n                    await asyncio.shield(self.queue.get())\n"),
    rules=["R14.6", "R12.5"], note="seed C14-R7B: the wrapper suspends after the body has finished")
add("mR7e", ["C06", "C04"], (P, "        return self._failed_timeout is not False\n",
                             "        if self._failed_timeout is not False:\n            return True\n        return any(isinstance(job.raised_exception(), TimeoutError) for job in self.jobs)\n"),
    rules=["R06.12", "R04.12"], note="seed C06-R7C: the diagnosis looks at what jobs raised")
add("mR7f", ["C03", "C05"], [(W, "        async def wrapped():                            # pylint: disable=C0111\n",
                              "        critical = job.is_critical()\n\n        async def wrapped():                            # pylint: disable=C0111\n"),
                             (W, "                release = not job.is_critical()\n", "                release = not critical\n")],
    rules=["R03.8", "R05.13"], note="seed C03-R7C: criticality sampled when the task is created")
add("mR7g", ["C19"], (J, "        if job is not self:\n            self.required.add(job)\n", "        if job is not self:\n            self.required.add(job)\n") , expect='silent',
    note="(identity: anchor check of the requires() helper)")
add("mR7h", ["C10"], (S, "                if exc is not None:\n                    raise exc\n",
                      "                if exc is not None:\n                    if hasattr(exc, 'add_note'):\n                        exc.add_note(job._get_text_label())\n                    raise exc\n"),
    rules=["R10.16"], note="seed C10-R7C: a call between reading the exception and raising it")
add("mR7i", ["C15"], (P, "        for job in self.topological_order():\n            i = job._set_sched_id(i, id_format)",
                      "        for job in sorted(self.topological_order(), key=lambda job: bool(job.forever)):\n            i = job._set_sched_id(i, id_format)"),
    rules=["R15.5"], note="seed C15-R7B: ids handed out over a re-sorted order")
add("mR7j", ["C20"], [(J, "    def dot_style(self):                                # pylint: disable=c0111\n",
                       "    def dot_style(self, style=DotStyle()):              # pylint: disable=c0111\n"),
                      (J, "        style = DotStyle()\n        # style; DotStyle known how to deal with lists\n",
                       "        # style; DotStyle known how to deal with lists\n")],
    rules=["R20.10"], note="seed C20-R7C: the style object is built once for all calls")
add("mR7k", ["C11", "C13"], (J, "            result = await self.coshutdown\n", "            result = await asyncio.shield(self.coshutdown)\n"),
    rules=["R11.6", "R13.9"], note="seed C11-R7C: the user's clean-up runs in a task nobody cancels")
add("mR7l", ["C04"], [(P, """            done, pending \\
                = await asyncio.wait(pending,
                                     timeout=self._remaining_timeout(),
                                     return_when=asyncio.FIRST_COMPLETED)
""", """            try:
                done, pending = await asyncio.wait_for(
                    asyncio.wait(pending, return_when=asyncio.FIRST_COMPLETED),
                    timeout=self._remaining_timeout())
            except asyncio.TimeoutError:
                done = set()
""")], rules=["R04.11"], note="seed C04-R7B: the main wait runs under an outer bound")
add("mR7m", ["C12"], [(P, "        while True:\n            done, pending \\\n", "        while nb_jobs_done < nb_jobs_finite:\n            done, pending \\\n")],
    rules=["R12.1"], note="seed C12-R7C (reduced): the loop can be skipped before the first wait")
add("mR7n", ["C05", "C01"], (P, "        task = asyncio.create_task(window.run_job(job)())\n",
                             "        if isinstance(job, PureScheduler):\n            job._running = True\n            task = asyncio.create_task(job.co_run())\n        else:\n            task = asyncio.create_task(window.run_job(job)())\n"),
    rules=["R05.12", "R01.1"], note="seed C05-R7C: nested schedulers bypass the window wrapper and its gate")
add("mR7o", ["C18", "C01"], (P, """        preserved = downwards & upwards
        if keep_starts:
            preserved.update(starts)
        if keep_ends:
            preserved.update(ends)

        # no need to replug anything, let's do it the rough way,
        # and sanitize to remove dangling references
        self.jobs = preserved
        self.sanitize()
""", """        self.keep_only(downwards & upwards)
        if keep_starts:
            self.jobs.update(starts)
        if keep_ends:
            self.jobs.update(ends)
        self.sanitize()
"""), rules=["R18.1", "R01.12"], note="seed C01-R7C: sanitize() runs while the milestones are out")
add("mR7p", ["C19"], [(J, "                if not remove:\n                    self._add_one_requirement(requirement)\n                else:\n                    self.required.remove(requirement)\n",
                       "                if requirement is not self:\n                    if remove:\n                        self.required.remove(requirement)\n                    else:\n                        self.required.add(requirement)\n")],
    rules=["R19.3"], note="seed C19-R7B: removing oneself is silently skipped")
add("mR7q", ["C03", "C07"], (P, "        task = asyncio.create_task(window.run_job(job)())\n",
                             "        if isinstance(job, PureScheduler) and job.jobs_window is None:\n            job.jobs_window = self.jobs_window\n        task = asyncio.create_task(window.run_job(job)())\n"),
    rules=["R03.9", "R07.5"], note="seed C03-R7B: a nested scheduler is handed its parent's window size")
add("bR7b", ["C13", "C11"], (P, "        if pending:\n            for task in pending:\n                task.cancel()\n",
                             "        if pending:\n            await self._feedback(None, \"tidying {} tasks\".format(len(pending)))\n            for task in pending:\n                task.cancel()\n"),
    expect='silent', note="feedback that names no task reads no back-pointer")
add("bR7h", ["C10"], (S, "                if exc is not None:\n                    raise exc\n",
                      "                if exc is not None:\n                    if self.verbose:\n                        print(\"critical failure bubbles up\")\n                    raise exc\n"),
    expect='silent', note="a print between reading the exception and raising it cannot replace it")
add("bR7i", ["C15"], (P, "        for job in self.topological_order():\n            i = job._set_sched_id(i, id_format)",
                      "        for job in list(self.topological_order()):\n            i = job._set_sched_id(i, id_format)"),
    expect='silent', note="a list keeps the order of the generator")
add("bR7j", ["C20"], [(J, "    def dot_style(self):                                # pylint: disable=c0111\n",
                       "    def dot_style(self, style=None):                    # pylint: disable=c0111\n"),
                      (J, "        style = DotStyle()\n        # style; DotStyle known how to deal with lists\n",
                       "        style = DotStyle() if style is None else style\n        # style; DotStyle known how to deal with lists\n")],
    expect='silent', note="presets with a None default: a fresh style per call")
add("bR7l", ["C04", "C08"], [(P, """            done, pending \\
                = await asyncio.wait(pending,
                                     timeout=self._remaining_timeout(),
                                     return_when=asyncio.FIRST_COMPLETED)
""", """            remaining = self._remaining_timeout()
            done, pending = await asyncio.wait(
                pending, timeout=remaining, return_when=asyncio.FIRST_COMPLETED)
""")], expect='silent', note="the wait awaited as it is, its bound computed first")
add("bR7p", ["C19"], [(J, "                if not remove:\n                    self._add_one_requirement(requirement)\n                else:\n                    self.required.remove(requirement)\n",
                       "                if remove:\n                    self.required.remove(requirement)\n                elif requirement is not self:\n                    self.required.add(requirement)\n")],
    expect='silent', note="the identity test filters additions only")
_SUCC_LOOP = """                if candidate_next.is_scheduled():
                    continue
                # we can start only if all requirements are satisfied
                requirements_ok = True
                for req in candidate_next.required:
                    if not req.is_done():
                        requirements_ok = False
                if requirements_ok:
                    await self._feedback(candidate_next, "STARTING")
                    pending.add(self._create_task(candidate_next, window))
                    added += 1
"""
add("bR7c1", ["C12", "C03", "C01"], (P, _SUCC_LOOP, """                if not candidate_next.is_scheduled():
                    requirements_ok = True
                    for req in candidate_next.required:
                        if not req.is_done():
                            requirements_ok = False
                    if requirements_ok:
                        await self._feedback(candidate_next, "STARTING")
                        pending.add(self._create_task(candidate_next, window))
                        added += 1
"""), expect='silent', note="the guard flag re-initialised inside a nested if instead of after a continue")
add("bR7c2", ["C12", "C03", "C01"], (P, _SUCC_LOOP, """                if candidate_next.is_scheduled():
                    continue
                if not candidate_next.required:
                    requirements_ok = True
                else:
                    requirements_ok = all(req.is_done() for req in candidate_next.required)
                if requirements_ok:
                    await self._feedback(candidate_next, "STARTING")
                    pending.add(self._create_task(candidate_next, window))
                    added += 1
"""), expect='silent', note="the guard flag assigned on both branches of an if")

# ------------------------------------------------------------------ round 8
add("mR8a", ["C13", "C08"], (P, "        self._expiration = \\\n            None if timeout is None \\\n            else time.time() + timeout\n",
                             "        if timeout is not None:\n            self._expiration = time.time() + timeout\n"),
    rules=["R13.13", "R08.8"], note="seed C13-R8C: the deadline of the run survives into an unbounded shutdown phase")
add("bR8a", ["C13", "C08", "C03"], (P, "        self._expiration = \\\n            None if timeout is None \\\n            else time.time() + timeout\n",
                                    "        if timeout is None:\n            self._expiration = None\n            return\n        now = time.time()\n        self._expiration = now + timeout\n"),
    expect='silent', note="guard clause + a local reading of the clock: stored on every path")
add("mR8b", ["C19"], (J, "            elif isinstance(requirement, (tuple, list, set)):\n",
                      "            elif isinstance(requirement, set) and not remove:\n                self.required |= requirement - {self}\n            elif isinstance(requirement, (tuple, list, set)):\n"),
    rules=["R19.3"], note="seed C19-R8B: a set merged into self.required as it is")
add("mR8c", ["C18"], (P, "        downwards = self.successors_downstream(*starts) if starts else self.jobs\n",
                      "        starts = starts or set(self.entry_jobs())\n        downwards = self.successors_downstream(*starts)\n"),
    rules=["R18.3"], note="seed C18-R8B: an omitted `starts` replaced by the entry jobs")
