"""Static-analysis engine for the asynciojobs verification task (see DESIGN.md)."""
