"""
E1 -- program index: parsed modules, class table with C3 MRO, function table
(including nested functions), method suppliers, call resolution helpers.

Nothing from the analysed package is imported or executed: the index is built
from `ast.parse` of the files found under <root>/<pkg> at the time of the call.
"""

import ast
import hashlib
import os


class AnalysisError(Exception):
    """The checker cannot decide (vanished anchor, unknown idiom, parse failure)."""


class FuncInfo:
    def __init__(self, qualname, node, module, cls=None, parent=None):
        self.qualname = qualname
        self.node = node
        self.module = module          # ModuleInfo
        self.cls = cls                # ClassInfo or None
        self.parent = parent          # enclosing FuncInfo for nested defs
        self.name = node.name
        self.is_async = isinstance(node, ast.AsyncFunctionDef)
        self.is_generator = _is_generator(node)
        self.decorators = [_dotted(d) for d in node.decorator_list]
        self.is_static = 'staticmethod' in self.decorators
        self.is_classmethod = 'classmethod' in self.decorators
        a = node.args
        self.params = [x.arg for x in a.posonlyargs + a.args]
        self.kwonly = [x.arg for x in a.kwonlyargs]
        self.vararg = a.vararg.arg if a.vararg else None
        self.kwarg = a.kwarg.arg if a.kwarg else None
        self.nested = {}              # name -> FuncInfo

    @property
    def file(self):
        return self.module.relpath

    def loc(self):
        return "%s:%d %s" % (self.module.relpath, self.node.lineno, self.qualname)

    def defaults(self):
        """param name -> default AST node"""
        a = self.node.args
        out = {}
        pos = a.posonlyargs + a.args
        for p, d in zip(pos[len(pos) - len(a.defaults):], a.defaults):
            out[p.arg] = d
        for p, d in zip(a.kwonlyargs, a.kw_defaults):
            if d is not None:
                out[p.arg] = d
        return out

    def __repr__(self):
        return "<Func %s>" % self.qualname


class ClassInfo:
    def __init__(self, name, node, module):
        self.name = name
        self.node = node
        self.module = module
        self.base_names = [_dotted(b) for b in node.bases]
        self.methods = {}             # name -> FuncInfo (own)
        self.class_attrs = {}         # name -> value node
        self.mro = None               # list of ClassInfo (package classes only)
        self.external_bases = []

    def __repr__(self):
        return "<Class %s>" % self.name


class ModuleInfo:
    def __init__(self, name, path, relpath, source, tree):
        self.name = name
        self.path = path
        self.relpath = relpath
        self.source = source
        self.lines = source.splitlines()
        self.tree = tree
        self.imports = {}             # local name -> (module, orig name)
        self.functions = {}           # module-level functions
        self.classes = {}


def _dotted(node):
    if isinstance(node, ast.Name):
        return node.id
    if isinstance(node, ast.Attribute):
        base = _dotted(node.value)
        return (base + "." + node.attr) if base else None
    if isinstance(node, ast.Call):
        return _dotted(node.func)
    return None


dotted = _dotted


def _is_generator(fnode):
    for n in walk_local(fnode):
        if isinstance(n, (ast.Yield, ast.YieldFrom)):
            return True
    return False


def walk_local(fnode):
    """walk the body of a function without entering nested defs / lambdas / classes"""
    stack = list(fnode.body) if hasattr(fnode, 'body') and isinstance(fnode.body, list) else [fnode]
    while stack:
        n = stack.pop()
        if isinstance(n, (ast.FunctionDef, ast.AsyncFunctionDef, ast.ClassDef, ast.Lambda)):
            continue
        yield n
        for c in ast.iter_child_nodes(n):
            if isinstance(c, (ast.FunctionDef, ast.AsyncFunctionDef, ast.ClassDef, ast.Lambda)):
                continue
            stack.append(c)


class Program:
    def __init__(self, root="/repo", pkg="asynciojobs"):
        self.root = root
        self.pkg = pkg
        self.modules = {}
        self.classes = {}
        self.funcs = {}
        self._load()
        self._link()

    # ------------------------------------------------------------------ load
    def _load(self):
        pkgdir = os.path.join(self.root, self.pkg)
        if not os.path.isdir(pkgdir):
            raise AnalysisError("package directory %s not found" % pkgdir)
        h = hashlib.sha256()
        names = sorted(f for f in os.listdir(pkgdir) if f.endswith(".py"))
        if not names:
            raise AnalysisError("no python file under %s" % pkgdir)
        for fn in names:
            path = os.path.join(pkgdir, fn)
            with open(path, encoding="utf-8") as f:
                src = f.read()
            h.update(fn.encode() + b"\0" + src.encode() + b"\0")
            try:
                tree = ast.parse(src, filename=path)
            except SyntaxError as e:
                raise AnalysisError("cannot parse %s: %s" % (path, e))
            mod = ModuleInfo(fn[:-3], path, os.path.join(self.pkg, fn), src, tree)
            for n in ast.walk(tree):
                for c in ast.iter_child_nodes(n):
                    c._parent = n
            self.modules[mod.name] = mod
        self.digest = h.hexdigest()

    def _register_func(self, fnode, module, cls, parent, prefix):
        qn = prefix + fnode.name
        fi = FuncInfo(qn, fnode, module, cls, parent)
        self.funcs[qn] = fi
        for n in walk_local(fnode):
            if isinstance(n, (ast.FunctionDef, ast.AsyncFunctionDef)):
                pass
        # nested defs (direct or inside compound statements, not inside other defs)
        for n in _nested_defs(fnode):
            sub = self._register_func(n, module, cls, fi, qn + ".")
            fi.nested[n.name] = sub
        return fi

    def _link(self):
        for mod in self.modules.values():
            for st in mod.tree.body:
                self._scan_imports(mod, st)
            for st in ast.walk(mod.tree):
                if isinstance(st, (ast.Import, ast.ImportFrom)):
                    self._scan_imports(mod, st)
            for st in mod.tree.body:
                if isinstance(st, ast.ClassDef):
                    if st.name in self.classes:
                        raise AnalysisError("duplicate class name %s" % st.name)
                    ci = ClassInfo(st.name, st, mod)
                    self.classes[st.name] = ci
                    mod.classes[st.name] = ci
                    for b in st.body:
                        if isinstance(b, (ast.FunctionDef, ast.AsyncFunctionDef)):
                            ci.methods[b.name] = self._register_func(
                                b, mod, ci, None, st.name + ".")
                        elif isinstance(b, ast.Assign):
                            for t in b.targets:
                                if isinstance(t, ast.Name):
                                    ci.class_attrs[t.id] = b.value
                elif isinstance(st, (ast.FunctionDef, ast.AsyncFunctionDef)):
                    fi = self._register_func(st, mod, None, None, mod.name + ":")
                    mod.functions[st.name] = fi
        for ci in self.classes.values():
            self._mro(ci, ())

    def _scan_imports(self, mod, st):
        if isinstance(st, ast.ImportFrom):
            for a in st.names:
                mod.imports[a.asname or a.name] = (st.module or "", a.name, st.level)
        elif isinstance(st, ast.Import):
            for a in st.names:
                mod.imports[a.asname or a.name.split(".")[0]] = (a.name, None, 0)

    def _mro(self, ci, stack):
        if ci.mro is not None:
            return ci.mro
        if ci in stack:
            raise AnalysisError("inheritance cycle at %s" % ci.name)
        seqs = []
        direct = []
        for bn in ci.base_names:
            base = self.resolve_class(bn, ci.module)
            if base is None:
                ci.external_bases.append(bn)
                continue
            direct.append(base)
            seqs.append(list(self._mro(base, stack + (ci,))))
        seqs.append(list(direct))
        out = [ci]
        while True:
            seqs = [s for s in seqs if s]
            if not seqs:
                break
            for s in seqs:
                cand = s[0]
                if not any(cand in t[1:] for t in seqs):
                    break
            else:
                raise AnalysisError("inconsistent MRO for %s" % ci.name)
            out.append(cand)
            for s in seqs:
                if s and s[0] is cand:
                    del s[0]
        ci.mro = out
        return out

    # ------------------------------------------------------------ resolution
    def resolve_class(self, name, module=None):
        if name is None:
            return None
        last = name.split(".")[-1]
        if module is not None and name in module.imports:
            src_mod, orig, _lvl = module.imports[name]
            if orig and orig in self.classes:
                return self.classes[orig]
        return self.classes.get(last)

    def supplier(self, cls, meth):
        """FuncInfo supplying `meth` for instances of `cls` (by C3 MRO), or None"""
        if isinstance(cls, str):
            cls = self.classes.get(cls)
        if cls is None:
            return None
        for c in cls.mro:
            if meth in c.methods:
                return c.methods[meth]
        return None

    def subclasses(self, cls, strict=False):
        if isinstance(cls, str):
            cls = self.classes[cls]
        return [c for c in self.classes.values()
                if cls in c.mro and not (strict and c is cls)]

    def dispatch_set(self, cls, meth):
        """all functions `self.meth()` may reach when self is an instance of cls
        or of a package subclass of cls"""
        out = []
        for c in self.subclasses(cls):
            f = self.supplier(c, meth)
            if f is not None and f not in out:
                out.append(f)
        if len(out) > 1:
            # an override that only hands over to another implementation of the set (`return await
            # Base.meth(self, ...)`, `return super().meth(...)`) adds no behaviour of its own
            keep = [f for f in out if self.thin_delegate_target(f) not in out]
            if keep:
                out = keep
        return out

    def effective_supplier(self, cls, meth):
        """the implementation `cls().meth` ends up in, seen through overrides that only delegate"""
        f = self.supplier(cls, meth)
        seen = set()
        while f is not None and f.qualname not in seen:
            seen.add(f.qualname)
            t = self.thin_delegate_target(f)
            if t is None:
                break
            f = t
        return f

    def thin_delegate_target(self, f):
        """the function f delegates to when its whole body is `return [await] <Class|super()>.<same name>(...)`
        with its own parameters passed through unchanged; else None"""
        body = [s for s in f.node.body if not (isinstance(s, ast.Expr) and isinstance(s.value, ast.Constant))]
        if len(body) != 1 or not isinstance(body[0], (ast.Return, ast.Expr)) or f.cls is None:
            return None
        v = body[0].value
        if isinstance(v, ast.Await):
            v = v.value
        if not (isinstance(v, ast.Call) and isinstance(v.func, ast.Attribute) and v.func.attr == f.name):
            return None
        params = list(f.params)
        base = v.func.value
        args = [a for a in v.args]
        target = None
        if isinstance(base, ast.Name) and base.id in self.classes and args and isinstance(args[0], ast.Name) \
                and params and args[0].id == params[0]:
            target = self.supplier(self.classes[base.id], f.name)
            args = args[1:]
            rest = params[1:]
        elif isinstance(base, ast.Call) and dotted(base.func) == 'super' and not base.args:
            for c in f.cls.mro[1:]:
                if f.name in c.methods:
                    target = c.methods[f.name]
                    break
            rest = params[1:]
        else:
            return None
        if target is None or target is f:
            return None
        # parameters handed over as they are
        passed = [a.id if isinstance(a, ast.Name) else None for a in args] + \
                 [k.value.id if isinstance(k.value, ast.Name) and k.arg == k.value.id else None for k in v.keywords
                  if k.arg is not None]
        star = [a for a in v.args if isinstance(a, ast.Starred)] + [k for k in v.keywords if k.arg is None]
        if None in passed and not star:
            return None
        if not star and sorted(passed) != sorted(rest):
            return None
        return target

    def definers(self, meth):
        """every package class defining `meth` itself"""
        return [c for c in self.classes.values() if meth in c.methods]

    def func(self, qualname, required=True):
        f = self.funcs.get(qualname)
        if f is None and required:
            raise AnalysisError("anchor function %s not found" % qualname)
        return f

    def cls(self, name, required=True):
        c = self.classes.get(name)
        if c is None and required:
            raise AnalysisError("anchor class %s not found" % name)
        return c

    def all_functions(self):
        return list(self.funcs.values())

    def src(self, node, module=None):
        """normalised source text of a node"""
        try:
            return ast.unparse(node)
        except Exception:
            return "<%s>" % type(node).__name__


def _nested_defs(fnode):
    out = []
    stack = list(fnode.body)
    while stack:
        n = stack.pop(0)
        if isinstance(n, (ast.FunctionDef, ast.AsyncFunctionDef)):
            out.append(n)
            continue
        if isinstance(n, (ast.ClassDef, ast.Lambda)):
            continue
        for c in ast.iter_child_nodes(n):
            stack.append(c)
    return out


def enclosing_func(prog, node):
    """FuncInfo whose def encloses node (innermost)"""
    n = node
    while n is not None:
        n = getattr(n, "_parent", None)
        if isinstance(n, (ast.FunctionDef, ast.AsyncFunctionDef)):
            for f in prog.funcs.values():
                if f.node is n:
                    return f
    return None
