#!/usr/bin/env python3
"""
Evaluate the checkers against a seeded change:
    tools_seed_eval.py <patch.diff> [--props C05 C11 ...] [--demo demo.py]
Applies the patch to a scratch copy of /repo (never to /repo itself), runs the
quick checks on it, optionally runs the demonstration program with and without
the change, prints which rules fired, removes the scratch copy.
"""
import argparse
import os
import shutil
import subprocess
import sys
import tempfile

HERE = os.path.dirname(os.path.abspath(__file__))
sys.path.insert(0, HERE)


def main():
    ap = argparse.ArgumentParser()
    ap.add_argument("patch")
    ap.add_argument("--props", nargs="*")
    ap.add_argument("--demo")
    ap.add_argument("--repo", default="/repo")
    a = ap.parse_args()
    tmp = tempfile.mkdtemp(prefix="seed-eval-")
    try:
        shutil.copytree(os.path.join(a.repo, "asynciojobs"), os.path.join(tmp, "asynciojobs"),
                        ignore=shutil.ignore_patterns("__pycache__"))
        r = subprocess.run(["patch", "-p1", "-s", "-d", tmp, "-i", os.path.abspath(a.patch)],
                           capture_output=True, text=True)
        if r.returncode != 0:
            print("PATCH FAILED", r.stdout, r.stderr)
            return 3
        if a.demo:
            for label, pkg in (("unchanged", a.repo), ("changed", tmp)):
                env = dict(os.environ, PKG=pkg, PYTHONPATH=pkg)
                d = subprocess.run(["/venv/bin/python", a.demo], capture_output=True, text=True, env=env, timeout=120)
                last = (d.stdout.strip().splitlines() or [''])[-1]
                print("demo on %-9s: exit %d  %s" % (label, d.returncode, last[:150]))
        import vcheck
        props = a.props or vcheck.PROPS
        fired_any = False
        for p in props:
            rc, lines, rep = vcheck.run_property(p, 'quick', 0, root=tmp, write_evidence=False, quiet=True)
            bad = [o for o in rep.obls if not o.ok and not o.known]
            if rc != 0:
                fired_any = fired_any or rc == 1
                print("%s rc=%d %s" % (p, rc, sorted({o.rule for o in bad})))
                for o in bad[:3]:
                    print("      %s | %s | %s" % (o.rule, o.function, o.construct[:140]))
                for e in rep.errors[:2]:
                    print("      ERROR %s: %s" % (e[0], e[1][:200]))
        print("DETECTED" if fired_any else "MISSED")
        return 0 if fired_any else 1
    finally:
        shutil.rmtree(tmp, ignore_errors=True)


if __name__ == "__main__":
    sys.exit(main())
