#!/usr/bin/env python3
"""run every check on a scratch copy of /repo with a (supposedly) behaviour-preserving
refactoring applied; anything but exit 0 is a false alarm (or an inconclusive) to fix.
    tools_benign_eval.py <dir with N.diff files> [...]"""
import concurrent.futures, os, shutil, subprocess, sys, tempfile
HERE = os.path.dirname(os.path.abspath(__file__))
sys.path.insert(0, HERE)


def one(diff):
    import vcheck
    tmp = tempfile.mkdtemp(prefix="benign-")
    try:
        shutil.copytree("/repo/asynciojobs", os.path.join(tmp, "asynciojobs"), ignore=shutil.ignore_patterns("__pycache__"))
        r = subprocess.run(["patch", "-p1", "-s", "-d", tmp, "-i", diff], capture_output=True, text=True)
        if r.returncode != 0:
            return diff, "PATCHFAIL", []
        out = []
        for p in vcheck.PROPS:
            rc, lines, rep = vcheck.run_property(p, "quick", 0, root=tmp, write_evidence=False, quiet=True)
            if rc != 0:
                bad = [o for o in rep.obls if not o.ok and not o.known]
                out.append((p, rc, [(o.rule, o.function, o.construct[:150]) for o in bad[:3]], [e[1][:200] for e in rep.errors[:2]]))
        return diff, "ok", out
    finally:
        shutil.rmtree(tmp, ignore_errors=True)


def main():
    diffs = []
    for d in sys.argv[1:]:
        if os.path.isdir(d):
            diffs += sorted(os.path.join(os.path.abspath(d), f) for f in os.listdir(d) if f.endswith(".diff"))
        else:
            diffs.append(os.path.abspath(d))
    nbad = nviol = 0
    with concurrent.futures.ProcessPoolExecutor(max_workers=12) as ex:
        for diff, status, out in ex.map(one, diffs):
            if status != "ok":
                print(diff, status)
                continue
            if out:
                nbad += 1
                if any(rc == 1 for _p, rc, _b, _e in out):
                    nviol += 1
            print("%s: %s" % (diff, "silent" if not out else "NOT SILENT"))
            for p, rc, bad, errs in out:
                print("    %s rc=%d" % (p, rc))
                for b in bad:
                    print("       %s | %s | %s" % b)
                for e in errs:
                    print("       ERROR %s" % e)
    print("refactorings: %d, not silent: %d (of which reported as violation: %d)" % (len(diffs), nbad, nviol))


if __name__ == "__main__":
    main()
